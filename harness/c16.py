"""C16: gpio.Peripheral against specs/Gpio*.tla."""
from . import common, hwcheck, csrmux
from .common import bits

from amaranth_soc import gpio

MC = """SPECIFICATION Spec
CONSTANTS Fam = "{fam}"
VIEW View
INVARIANT LayoutAccepted
INVARIANT NeverLost
ACTION_CONSTRAINT Props
CHECK_DEADLOCK FALSE
"""


class Adapter:
    module, prefix = "Gpio_Trace", "Gp"

    def mc_runs(self, tier):
        fam = "thorough" if tier == "thorough" else "quick"
        return [("Gpio_MC", MC.format(fam=fam),
                 f"Gpio_MC ({fam}): mode table, alt only in alternate, input delayed exactly, set/clear codes, "
                 "pin independence, layout = builder rule")]

    def vacuity(self, tier):
        return [("Gpio_MC", MC.format(fam="quick") + "INVARIANT NeverOpenDrain\n", "NeverOpenDrain")]

    def export(self, tier):
        return None

    def extra(self, run, tier):
        """two- and three-pin instances are too large for breadth-first search: TLC random walks
        (-simulate) check the same per-transition assertions and invariants along each behaviour"""
        from . import tlc
        if tier != "thorough":
            return
        num, depth = 120, 50
        res = tlc.run("Gpio_MC", MC.format(fam="pins2").replace("VIEW View\n", ""), simulate=num, depth=depth,
                      workers=8, timeout=1500, seed=common.seed() + 5)
        tlc.require_ok(res, "Gpio_MC -simulate")
        if res.errors:
            raise common.MachineryError("Gpio specification violates C16 on a random walk: " + res.raw[-2000:])
        import re
        m = re.search(r"The number of states generated: (\d+)", res.raw)
        res.generated = int(m.group(1)) if m else 0
        run.add_tlc(res, f"Gpio_MC -simulate, 2-3 pins, {num} walks/worker of depth {depth}")

    def sizes(self, tier):
        return dict(random_traces=320, length=500) if tier == "thorough" else dict(random_traces=80, length=350)

    def build(self, cfg):
        d = gpio.Peripheral(pin_count=cfg["pins"], addr_width=cfg["aw"], data_width=cfg["dw"],
                            input_stages=cfg["stages"])
        got = [{"start": ri.start, "stop": ri.end} for ri in d.bus.memory_map.all_resources()]
        names = [str(ri.path[-1][0]) for ri in d.bus.memory_map.all_resources()]
        if got != cfg["regs"] or names != ["Mode", "Input", "Output", "SetClr"]:
            raise common.MachineryError(f"layout changed between configuration and build: {got} {names}")
        ins = {"addr": d.bus.addr, "r_stb": d.bus.r_stb, "w_stb": d.bus.w_stb, "w_data": d.bus.w_data}
        outs = {"r_data": d.bus.r_data, "alt": d.alt_mode}
        for n, p in enumerate(d.pins):
            ins[f"i{n}"] = p.i
            outs[f"o{n}"] = p.o
            outs[f"oe{n}"] = p.oe
        return d, ins, outs, None, True

    def to_step(self, cfg, i, o):
        P = cfg["pins"]
        return {"i": {"addr": i["addr"], "r_stb": i["r_stb"], "w_stb": i["w_stb"], "w_data": bits(i["w_data"], cfg["dw"]),
                      "i": [i[f"i{n}"] for n in range(P)]},
                "o": {"r_data": bits(o["r_data"], cfg["dw"]), "o": [o[f"o{n}"] for n in range(P)],
                      "oe": [o[f"oe{n}"] for n in range(P)], "alt": bits(o["alt"], P)}}

    def random_cfg(self, r):
        while True:
            pins = r.choice([1, 2, 3, 4, 5, 8, 9, 12, 16, 20])
            dw = r.choice([8, 8, 8, 16, 32])
            aw = r.choice([3, 4, 5, 6, 8])
            stages = r.choice([0, 1, 2, 3])
            try:
                d = gpio.Peripheral(pin_count=pins, addr_width=aw, data_width=dw, input_stages=stages)
            except ValueError:
                continue            # the four registers do not fit this address width
            regs = [{"start": ri.start, "stop": ri.end} for ri in d.bus.memory_map.all_resources()]
            return {"pins": pins, "dw": dw, "aw": aw, "stages": stages, "regs": regs}

    def random_schedule(self, r, cfg, length):
        P = cfg["pins"]
        widths = [2 * P, P, P, 2 * P]
        acc = [(1, 1), (1, 0), (1, 1), (0, 1)]
        # r = 0 only tells the schedule generator not to invent register read values: they come from
        # the peripheral itself; read transactions are generated all the same
        mux_cfg = {"dw": cfg["dw"], "aw": cfg["aw"],
                   "regs": [{"start": x["start"], "stop": x["stop"], "width": w, "r": 0, "w": a[1]}
                            for x, w, a in zip(cfg["regs"], widths, acc)]}
        plan = csrmux.protocol_schedule(r, mux_cfg, length, noise=0.0)
        p_i = r.choice([0.1, 0.5, 0.9])
        hold = r.choice([0.0, 0.7])
        cur = [0] * P
        out = []
        for st in plan:
            d = {"addr": st["addr"], "r_stb": st["r_stb"], "w_stb": st["w_stb"], "w_data": st["w_data"]}
            for n in range(P):
                if r.random() >= hold:
                    cur[n] = int(r.random() < p_i)
                d[f"i{n}"] = cur[n]
            out.append(d)
        return out

    def nontrivial(self, s):
        return bool(s["i"]["r_stb"] or s["i"]["w_stb"])


RULE = ("leg A: TLC explores Gpio_MC (the builder layout, CsrMux, register packing and the pin logic composed; "
        "conforming CSR initiator interleaved with arbitrary pin levels; abstract 1-2 bit chunks so that Mode and "
        "SetClr span several chunks; 0-3 synchroniser stages) with the mode table, exact input delay (against a "
        "history of pin levels), set/clear codes and per-pin independence asserted on every transition; leg C: real "
        "gpio.Peripheral instances (1-20 pins, 8-32 bit buses, 0-3 stages) under register transactions on "
        "Mode/Input/Output/SetClr with per-pin distinct values while pins toggle; every cycle (bus read data, o, oe, "
        "alt_mode, and the register addresses the memory map reports) validated by TLC. non-trivial = a strobe.")


def main(tier):
    return hwcheck.check("C16", tier, Adapter(), RULE)


def replay(path):
    return hwcheck.replay(path, [Adapter()])
