from . import memmap


def main(tier):
    return memmap.main("C18", tier)


def replay(path):
    return memmap.replay(path)
