from . import memmap


def main(tier):
    return memmap.main("C18", tier)
