"""./check selftest : binding demonstrations.  For every trace specification a short execution of the
real implementation is recorded and accepted; then ONE recorded observation is corrupted (one bit of one
output flipped at one step) and TLC must reject the trace at exactly that step.  A specification that
accepted a corrupted trace would not be bound to the code."""
import copy
import json

from . import common, hwcheck, tracecheck
from .common import rng


def leaves(o, path=()):
    """paths of integer 0/1 leaves inside an observation record"""
    if isinstance(o, bool):
        return
    if isinstance(o, int):
        if o in (0, 1):
            yield path
    elif isinstance(o, dict):
        for k, v in sorted(o.items()):
            yield from leaves(v, path + (k,))
    elif isinstance(o, list):
        for k, v in enumerate(o):
            yield from leaves(v, path + (k,))


def flip(o, path):
    for p in path[:-1]:
        o = o[p]
    o[path[-1]] ^= 1


def adapters():
    from . import c06, c07, c10, c11, c12, c13, c14, c15, c16, csrmux
    return [("C12", c12.Adapter()), ("C13", c13.Monitor()), ("C15", c15.Adapter()), ("C04/C05", csrmux.Adapter()),
            ("C06", c06.Decoder()), ("C07", c07.Adapter()), ("C10", c10.Bridge()), ("C11", c11.Adapter()),
            ("C14", c14.Adapter()), ("C16", c16.Adapter())]


def main(tier):
    r = rng("selftest")
    rows, bad = [], 0
    for prop, ad in adapters():
        hwcheck._AD = ad
        good = None
        for _ in range(20):
            cfg = ad.random_cfg(r)
            if getattr(ad, "reactive", False):
                job = (cfg, ("driver", r.getrandbits(40), 60))
            else:
                job = (cfg, list(ad.random_schedule(r, cfg, 60)))
            tr = hwcheck._record_job(job)
            if "not_observable" not in tr and len(tr["steps"]) >= 20:
                good = tr
                break
        if good is None:
            raise common.MachineryError(f"selftest: no observable configuration for {ad.module}")
        if tracecheck.validate(ad.module, ad.prefix, [good]):
            raise common.MachineryError(f"selftest: clean trace of {ad.module} rejected")
        # corrupt outputs that the specification constrains: try leaves until one is rejected, but
        # every rejection must be AT the corrupted step
        tried, caught = 0, None
        cand = [(k, p) for k in range(5, len(good["steps"])) for p in leaves(good["steps"][k]["o"])]
        r.shuffle(cand)
        # stratified by the KIND of output (path without indices), so that wide data words - mostly unconstrained
        # while no strobe is active - do not crowd out strobes, acknowledges and single lines
        groups = {}
        for (k, p) in cand:
            groups.setdefault(tuple(x for x in p if isinstance(x, str)), []).append((k, p))
        picked = []
        while len(picked) < 40 and any(groups.values()):
            for g in sorted(groups):
                if groups[g] and len(picked) < 40:
                    picked.append(groups[g].pop())
        batch, meta = [], []
        for (k, p) in picked:
            t2 = {"cfg": good["cfg"], "steps": copy.deepcopy(good["steps"])}
            flip(t2["steps"][k]["o"], p)
            batch.append(t2)
            meta.append((k, p))
        fails = tracecheck.validate(ad.module, ad.prefix, batch)
        by = {f["trace"]: f for f in fails}
        wrong_place = [(meta[i], f) for i, f in by.items() if f["t"] != meta[i][0] + 1]
        rows.append({"property": prop, "spec": ad.module, "corruptions": len(batch), "rejected": len(by),
                     "rejected_elsewhere": len(wrong_place),
                     "example": {"step": meta[next(iter(by))][0] + 1, "field": list(meta[next(iter(by))][1]),
                                 "clause": by[next(iter(by))]["err"]} if by else None})
        if not by or wrong_place:
            bad += 1
    for row in rows:
        print(json.dumps(row))
    # deductive legs, strictly: every proof must go through, and the mutilated modules must NOT be provable
    from . import proofs
    for prop in sorted(proofs.TLAPS):
        for d in proofs.run_for(prop, strict=True):
            print(json.dumps({"property": prop, **d}))
    for row in proofs.negative_controls():
        print(json.dumps(row))
        if row["proved"]:
            bad += 1
    print(f"selftest: {len(rows)} trace specifications, {bad} not bound")
    return common.EXIT_OK if bad == 0 else common.EXIT_VIOLATION
