"""C14: csr.event.EventMonitor against specs/CsrEventMon*.tla, attached both ways the property
names: behind a csr.Decoder, and by wiring.connect(m, initiator, monitor.bus)."""
import json

from . import common, hwcheck, csrmux, tlc, tracecheck
from .common import bits, unbits, rng
from .hw import pmap

from amaranth import Module
from amaranth.hdl import Fragment
from amaranth.lib import wiring
from amaranth_soc import csr, event
from amaranth_soc.csr.event import EventMonitor

MC = """SPECIFICATION Spec
CONSTANTS MaxN = {n}
  Quick = {quick}
VIEW View
INVARIANT NeverLost
ACTION_CONSTRAINT Props
CHECK_DEADLOCK FALSE
"""


IRQ = """SPECIFICATION {spec}
CONSTANTS MaxN = {n}
  AckFirst = {ack}
  Modes = {modes}
{view}CHECK_DEADLOCK FALSE
"""
IRQ_SAFE = "VIEW View\nINVARIANT NeverLost\nINVARIANT NoLostWork\nINVARIANT QuietMeansDone\nPROPERTY DisabledUntouched\n"
ALL_MODES = '{"level", "rise", "fall"}'


class Adapter:
    module, prefix = "CsrEventMon_Trace", "Emon"

    def mc_runs(self, tier):
        q = "FALSE" if tier == "thorough" else "TRUE"
        more = []
        if tier == "thorough":
            more = [("IrqHandler_MC", IRQ.format(spec="Spec", n=3, ack="TRUE", modes='{"level", "rise"}', view=IRQ_SAFE),
                     "IrqHandler_MC with up to three sources (masks of 2-3 chunks): NoLostWork, QuietMeansDone, DisabledUntouched")]
        return more + [("CsrEventMon_MC", MC.format(n=2, quick=q),
                 f"CsrEventMon_MC (Quick={q}): enable takes the written mask, write-one-to-clear exactly, "
                 "re-trigger wins, zeros clear nothing, irq"),
                ("IrqHandler_MC", IRQ.format(spec="Spec", n=2, ack="TRUE", modes=ALL_MODES, view=IRQ_SAFE),
                 "IrqHandler_MC: a handler following the documented protocol (read pending, write-one-to-clear, serve) over "
                 "CsrEventMon, stalling anywhere, sources arbitrary: NoLostWork, QuietMeansDone, DisabledUntouched"),
                ("IrqHandler_MC", IRQ.format(spec="FairSpec", n=2, ack="TRUE", view="PROPERTY Served\n",
                                             modes=ALL_MODES if tier == "thorough" else '{"level", "rise"}'),
                 "IrqHandler_MC liveness: outstanding work of an enabled source is eventually served (handler weakly fair)")]

    def vacuity(self, tier):
        return [("CsrEventMon_MC", MC.format(n=1, quick="TRUE") + "PROPERTY NeverCleared\n", "NeverCleared"),
                # the classic race (serve, then acknowledge) loses work: the invariant is not vacuous
                ("IrqHandler_MC", IRQ.format(spec="Spec", n=1, ack="FALSE", modes='{"rise"}', view=IRQ_SAFE), "NoLostWork"),
                ("IrqHandler_MC", IRQ.format(spec="Spec", n=1, ack="TRUE", modes='{"level", "rise"}',
                                             view="VIEW View\nPROPERTY NoRound\n"), "NoRound"),
                # without fairness of the handler nothing is ever served: the liveness statement is not vacuous
                ("IrqHandler_MC", IRQ.format(spec="Spec", n=1, ack="TRUE", modes='{"level"}', view="PROPERTY Served\n"), "Served")]

    def export(self, tier):
        return None

    def sizes(self, tier):
        return dict(random_traces=400, length=400) if tier == "thorough" else dict(random_traces=96, length=300)

    def build(self, cfg):
        n = cfg["n"]
        style = (n + cfg["dw"] + cfg["al"] + len(cfg["attach"])) % 3       # sources are told apart by identity, not by name
        srcs = [event.Source(trigger=cfg["modes"][k], path=(f"s{k}",)) if style == 0 else
                event.Source(trigger=cfg["modes"][k]) if style == 1 else
                event.Source(trigger=cfg["modes"][k], path=("dev", "irq")) for k in range(n)]
        em = event.EventMap()
        for s in srcs:
            em.add(s)
            if (n + cfg["dw"]) % 2:
                list(em.sources())       # a query while the map is being filled changes nothing
        mon = EventMonitor(em, trigger=cfg.get("trigger", "level"), data_width=cfg["dw"], alignment=cfg["al"])
        if n >= 100:
            # a monitor with many events must still be hardware (an elaboration that dies is not "for any number")
            em2 = event.EventMap()
            for k in range(n):
                em2.add(event.Source(trigger=cfg["modes"][k]))
            try:
                Fragment.get(EventMonitor(em2, trigger=cfg.get("trigger", "level"), data_width=cfg["dw"], alignment=cfg["al"]), None)
            except RecursionError as e:
                raise common.Violation("large-monitor", f"an EventMonitor with {n} events cannot be elaborated: RecursionError")
        got = [{"start": ri.start, "stop": ri.end} for ri in mon.bus.memory_map.all_resources()]
        names = [tuple(ri.path[-1]) for ri in mon.bus.memory_map.all_resources()]
        if got != cfg["regs"] or names != [("enable",), ("pending",)]:
            raise common.MachineryError(f"memory map changed between configuration and build: {got} {names}")
        m = Module()
        m.submodules.mon = mon
        if cfg["attach"] == "decoder":
            dec = csr.Decoder(addr_width=mon.bus.addr_width + 1, data_width=cfg["dw"])
            if (cfg["n"] + cfg["dw"]) % 2 == 0:
                # a first attempt outside the decoder's address space is refused; the corrected retry must work
                try:
                    dec.add(mon.bus, addr=1 << (mon.bus.addr_width + 1))
                except ValueError:
                    pass
                else:
                    raise common.Violation("out-of-range-accepted", "csr.Decoder.add() accepted a window outside its address space")
                try:
                    dec.add(mon.bus, addr=cfg["base"])
                except ValueError as e:
                    raise common.Violation("retry-refused", f"after a refused attempt, csr.Decoder.add(monitor.bus, addr={cfg['base']}) "
                                           f"is refused although it is legal: {e}")
            else:
                dec.add(mon.bus, addr=cfg["base"])
            m.submodules.dec = dec
            bus = dec.bus
        else:
            bus = csr.Interface(addr_width=mon.bus.addr_width, data_width=cfg["dw"], path=("init",))
            try:
                wiring.connect(m, bus, mon.bus)      # C14/C20: an initiator interface connects to the port
            except Exception as e:
                raise common.Violation("csr.event.EventMonitor.bus:connect-initiator",
                                       "wiring.connect(m, initiator, EventMonitor.bus) fails: "
                                       f"{type(e).__name__}: {e}")
        ins = {"addr": bus.addr, "r_stb": bus.r_stb, "w_stb": bus.w_stb, "w_data": bus.w_data}
        for k, s in enumerate(srcs):
            ins[f"i{k}"] = s.i
        outs = {"r_data": bus.r_data, "irq": mon.src.i}
        return m, ins, outs, None, True

    def to_step(self, cfg, i, o):
        n, dw = cfg["n"], cfg["dw"]
        base = cfg["base"] if cfg["attach"] == "decoder" else 0
        span = 1 << cfg["maw"]
        # address as the monitor sees it; anything outside its window is "unmapped" for the specification
        local = i["addr"] - base if base <= i["addr"] < base + span else span + 7
        return {"i": {"addr": local,
                      "r_stb": i["r_stb"], "w_stb": i["w_stb"], "w_data": bits(i["w_data"], dw),
                      "i": [i[f"i{k}"] for k in range(n)]},
                "o": {"r_data": bits(o["r_data"], dw), "irq": o["irq"]}}

    def classify_exception(self, cfg, e):
        # "for any number of events": a monitor of a few hundred events (register maps far below the size at which
        # the recorded open finding about deep OR chains begins) must elaborate and simulate
        if isinstance(e, RecursionError) and 100 <= cfg["n"] <= 300 and cfg["al"] <= 2:
            return ("large-monitor", f"an EventMonitor with {cfg['n']} events on a {cfg['dw']}-bit bus dies with RecursionError "
                    "when elaborated / simulated")
        return None

    def random_cfg(self, r):
        n = r.choice([0, 1, 2, 3, 5, 8, 9, 16, 20])
        dw = r.choice([1, 2, 4, 8, 8, 16, 32])
        self._count = getattr(self, "_count", 0) + 1
        if self._count % 24 == 5:
            n, dw = r.choice([150, 200, 260]), r.choice([8, 32])      # scale: "any number of events"
        al = r.choice([0, 0, 1, 2])
        modes = [r.choice(["level", "rise", "fall"]) for _ in range(n)]
        em = event.EventMap()
        for k in range(n):
            em.add(event.Source(trigger=modes[k]))
        mon = EventMonitor(em, data_width=dw, alignment=al)
        regs = [{"start": ri.start, "stop": ri.end} for ri in mon.bus.memory_map.all_resources()]
        maw = mon.bus.addr_width
        return {"n": n, "dw": dw, "al": al, "modes": modes, "regs": regs, "maw": maw,
                "trigger": r.choice(["level", "rise", "fall"]),
                "attach": r.choice(["decoder", "connect"]), "base": r.choice([0, 1 << maw]),
                "aw": maw}

    def random_schedule(self, r, cfg, length):
        n = cfg["n"]
        mux_cfg = {"dw": cfg["dw"], "aw": cfg["maw"],
                   "regs": [{"start": x["start"], "stop": x["stop"], "width": n, "r": 0, "w": 1} for x in cfg["regs"]]}
        plan = csrmux.protocol_schedule(r, mux_cfg, length, noise=0.0)
        base = cfg["base"] if cfg["attach"] == "decoder" else 0
        p_i = r.choice([0.05, 0.3, 0.7])
        out = []
        for st in plan:
            d = {"addr": st["addr"] + base, "r_stb": st["r_stb"], "w_stb": st["w_stb"], "w_data": st["w_data"]}
            if r.random() < 0.5:
                d["w_data"] &= r.getrandbits(cfg["dw"])          # sparse masks
            for k in range(n):
                d[f"i{k}"] = int(r.random() < p_i)
            out.append(d)
        return out

    def nontrivial(self, s):
        return bool(s["i"]["r_stb"] or s["i"]["w_stb"] or any(s["i"]["i"]))

    # leg B: TLC-generated behaviours of the interrupt-handler protocol (IrqHandler_MC: handler moves, stalls and
    # source activity chosen by TLC) replayed cycle by cycle on real monitors, attached both ways
    def extra(self, run, tier):
        num, depth = (150, 60) if tier == "thorough" else (50, 45)
        res, behs = tlc.simulate_behaviours(
            "IrqHandler_MC", IRQ.format(spec="Spec", n=2, ack="TRUE", modes=ALL_MODES, view=IRQ_SAFE),
            num=num, depth=depth, wanted=("key", "lastin", "st", "dirty"), seed=common.seed() + 11)
        run.add_tlc(res, "IrqHandler_MC -simulate (handler-protocol behaviours for replay)")
        jobs, expect = [], []
        for bi, b in enumerate(behs):
            if len(b) < 6:
                continue
            key = b[0]["key"]
            n, dw, modes = key["n"], key["dw"], list(key["modes"])
            em = event.EventMap()
            for k in range(n):
                em.add(event.Source(trigger=modes[k]))
            mon = EventMonitor(em, data_width=dw, alignment=0)
            regs = [{"start": ri.start, "stop": ri.end} for ri in mon.bus.memory_map.all_resources()]
            maw = mon.bus.addr_width
            for attach in (("decoder", "connect") if bi % 3 == 0 else (("decoder",) if bi % 2 else ("connect",))):
                base = (1 << maw) if (attach == "decoder" and bi % 4 < 2) else 0
                cfg = {"n": n, "dw": dw, "al": 0, "modes": modes, "regs": regs, "maw": maw, "trigger": "level",
                       "attach": attach, "base": base, "aw": maw}
                steps = []
                for s in b[1:]:
                    i = s["lastin"]
                    d = {"addr": i["addr"] + base, "r_stb": i["r_stb"], "w_stb": i["w_stb"], "w_data": unbits(i["w_data"])}
                    for k in range(n):
                        d[f"i{k}"] = i["i"][k]
                    steps.append(d)
                jobs.append((cfg, steps))
                # what TLC's behaviour says the monitor shows in each cycle: state BEFORE the step with input lastin
                expect.append([(unbits(s["st"]["mux"]["rd"]) if 2 not in s["st"]["mux"]["rd"] else None,
                                int(any(e == 1 and p == 1 for e, p in zip(s["st"]["enable"], s["st"]["ev"]["pending"]))))
                               for s in b[:-1]])
        traces = pmap(hwcheck._record_job, jobs)
        if any("not_observable" in t for t in traces):
            bad = next(t for t in traces if "not_observable" in t)
            raise common.MachineryError(f"a 1-2 event monitor could not be built: {bad['not_observable']}")
        # (1) direct comparison with the states of TLC's behaviour, (2) validation by the trace specification
        for t, exp in zip(traces, expect):
            for k, (s, (rd, irq)) in enumerate(zip(t["steps"], exp)):
                got_rd, got_irq = unbits(s["o"]["r_data"]), s["o"]["irq"]
                if (rd is not None and got_rd != rd) or got_irq != irq:
                    run.report(f"handler-behaviour:{json.dumps(t['cfg'], sort_keys=True)[:200]}",
                               f"IrqHandler_MC behaviour replayed on the real EventMonitor: cycle {k} shows r_data={got_rd} "
                               f"irq={got_irq}, the specification's state has r_data={rd} irq={irq}; cfg {t['cfg']}",
                               {"kind": "hw-trace", "adapter": hwcheck.adapter_id(self), "cfg": t["cfg"], "stim": t.get("stim"),
                                "failing_step": k, "clause": "handler-behaviour", "steps": t["steps"][max(0, k - 6):k + 1]})
                    break
        fails = tracecheck.validate(self.module, self.prefix, traces, run,
                                    "TLC-generated handler-protocol behaviours replayed on the real monitor (leg B)")
        hwcheck.report_failures(run, self, traces, fails, "behaviour")
        for t in traces:
            run.count(len(t["steps"]))
            ck = json.dumps(t["cfg"], sort_keys=True)
            for s in t["steps"]:
                run.distinct((ck, json.dumps(s["i"], sort_keys=True)), self.nontrivial(s))
        run.cov["handler_behaviours_replayed"] = len(traces)


RULE = ("leg A (system level): IrqHandler_MC composes CsrEventMon with a software interrupt handler that follows the "
        "documented protocol and with devices that raise work at any time: no work is lost (invariant), every "
        "outstanding piece of work is eventually served (liveness); the serve-then-acknowledge order and a "
        "clear-beats-trigger monitor are refuted. leg B: TLC's handler behaviours replayed on real monitors. "
        "leg A: TLC explores CsrEventMon_MC (the CsrMux and EventMon specifications composed by the documented "
        "glue; conforming CSR initiator interleaved with arbitrary source activity; 1-2 events, 1-2 bit chunks, "
        "alignment 0-1) with history-based statements of C14; leg C: real csr.event.EventMonitor instances with "
        "0-20 events, 1-32 bit buses, alignment 0-2, all trigger modes, attached behind a csr.Decoder or by "
        "wiring.connect() to an initiator interface, driven by register transactions with sparse masks while "
        "sources fire every cycle; every cycle validated by TLC, incl. that the registers sit where "
        "memory_map.all_resources() reports. non-trivial = a strobe or a source line high.")


def main(tier):
    return hwcheck.check("C14", tier, Adapter(), RULE)


def replay(path):
    return hwcheck.replay(path, [Adapter()])
