"""C13: event.Monitor and event.EventMap against specs/EventMon*.tla and specs/EventMap*.tla."""
from . import common
from .common import bits, unbits
from . import hwcheck

from amaranth_soc import event

MC = """SPECIFICATION Spec
CONSTANTS MaxN = {n}
  Export = {export}
ACTION_CONSTRAINT Props
CHECK_DEADLOCK FALSE
"""


class Monitor:
    module, prefix = "EventMon_Trace", "Ev"

    def mc_runs(self, tier):
        runs = [("EventMon_MC", MC.format(n=2, export="FALSE") + "PROPERTY EdgeRule\nPROPERTY FirstCycle\n",
                 "EventMon_MC MaxN=2 with two-step edge rules")]
        if tier == "thorough":
            runs.append(("EventMon_MC", MC.format(n=3, export="FALSE") + "VIEW View\n",
                         "EventMon_MC MaxN=3 (all 27 mode assignments)"))
        return runs

    def vacuity(self, tier):
        return [("EventMon_MC", MC.format(n=1, export="FALSE") + "PROPERTY NoTieEver\n", "NoTieEver")]

    def export(self, tier):
        return ("EventMon_MC", MC.format(n=3 if tier == "thorough" else 2, export="TRUE") + "VIEW View\n")

    def sizes(self, tier):
        return dict(random_traces=300, length=300, tour_salts=1) if tier == "thorough" else \
            dict(random_traces=64, length=200, tour_salts=1)

    def realize(self, key, cfg, r):
        cfg = dict(cfg)
        cfg["shuffle"] = r.randint(0, 1 << 30)
        cfg["trigger"] = r.choice(["level", "rise", "fall"])
        return cfg

    def build(self, cfg):
        n = cfg["n"]
        r = common.rng("evbuild", cfg["shuffle"])
        # sources are told apart by identity, never by name: a third of the monitors get sources with default paths
        # (all lines are called "i"), another third sources that share one explicit path
        style = cfg["shuffle"] % 3
        srcs = [event.Source(trigger=cfg["modes"][k], path=(f"s{k}",)) if style == 0 else
                event.Source(trigger=cfg["modes"][k]) if style == 1 else
                event.Source(trigger=cfg["modes"][k], path=("dev", "irq")) for k in range(n)]
        em = event.EventMap()
        # k-th FIRST-added source is srcs[k]; repeats are interleaved and must be ignored
        for k in range(n):
            em.add(srcs[k])
            if cfg["shuffle"] % 2:
                next(iter(em.sources()), None) if k % 2 else list(em.sources())     # queries while the map is being filled
            for _ in range(r.randint(0, 2)):
                em.add(srcs[r.randint(0, k)])
        mon = event.Monitor(em, trigger=cfg.get("trigger", "level"))
        ins = {"enable": mon.enable, "clear": mon.clear}
        outs = {"pending": mon.pending, "src_i": mon.src.i}
        for k in range(n):
            ins[f"i{k}"] = srcs[k].i
            outs[f"trg{k}"] = srcs[k].trg
        clocked = True
        return mon, ins, outs, None, clocked

    def sim_input(self, cfg, i, r):
        d = {"enable": unbits(i["enable"]), "clear": unbits(i["clear"])}
        for k in range(cfg["n"]):
            d[f"i{k}"] = i["i"][k]
        return d

    def to_step(self, cfg, i, o):
        n = cfg["n"]
        return {"i": {"i": [i[f"i{k}"] for k in range(n)], "enable": bits(i["enable"], n),
                      "clear": bits(i["clear"], n)},
                "o": {"trg": [o[f"trg{k}"] for k in range(n)], "pending": bits(o["pending"], n),
                      "src_i": o["src_i"]}}

    def random_cfg(self, r):
        n = r.choice([0, 1, 2, 3, 4, 5, 8, 12, 16])
        return {"n": n, "modes": [r.choice(["level", "rise", "fall"]) for _ in range(n)],
                "shuffle": r.randint(0, 1 << 30), "trigger": r.choice(["level", "rise", "fall"])}

    def random_schedule(self, r, cfg, length):
        n = cfg["n"]
        p_i = r.choice([0.1, 0.5, 0.9])
        p_c = r.choice([0.1, 0.5])
        for _ in range(length):
            yield self.sim_input(cfg, {
                "i": [int(r.random() < p_i) for _ in range(n)],
                "enable": [r.randint(0, 1) for _ in range(n)],
                "clear": [int(r.random() < p_c) for _ in range(n)]}, r)

    def nontrivial(self, s):
        return any(s["i"]["i"]) or any(s["i"]["clear"])


EM_MC = """SPECIFICATION Spec
CONSTANTS S = {s}
  D = {d}
  Export = {export}
CONSTRAINT Bound
ACTION_CONSTRAINT Log
CHECK_DEADLOCK FALSE
"""
EM_PROPS = "VIEW View\nINVARIANT FirstAdditionOrder\nINVARIANT Dense\nPROPERTY Stable\nPROPERTY FrozenRejects\n"


class Map:
    module, prefix = "EventMap_Trace", "Em"

    def mc_runs(self, tier):
        s, d = (4, 8) if tier == "thorough" else (3, 7)
        return [("EventMap_MC", EM_MC.format(s=s, d=d, export="FALSE") + EM_PROPS,
                 f"EventMap_MC S={s} depth<={d}: FirstAdditionOrder, Dense, Stable, FrozenRejects")]

    def export(self, tier):
        s = 4 if tier == "thorough" else 3
        return ("EventMap_MC", EM_MC.format(s=s, d=12, export="TRUE") + "VIEW ViewSt\n")

    def sizes(self, tier):
        return dict(random_traces=400, length=60, tour_salts=2) if tier == "thorough" else \
            dict(random_traces=100, length=40, tour_salts=1)

    def realize(self, key, cfg, r):
        return dict(cfg)

    def sim_input(self, cfg, i, r):
        return i

    def run_history(self, cfg, calls):
        em = event.EventMap()
        # a bystander map that receives the same source objects in another order: a source may belong to several
        # maps, and what one map says about it must not depend on the others
        other = event.EventMap()
        objs = {}

        def obj(s):
            if s == 0:
                return object()
            if s not in objs:
                objs[s] = event.Source(path=(f"s{s}",))
            return objs[s]
        ids = {}
        steps = []
        for n, c in enumerate(calls):
            ret, val = "ok", 0
            try:
                if c["call"] == "add":
                    o = obj(c["src"])
                    ids[id(o)] = c["src"]
                    if c["src"] and n % 2 == 0:
                        other.add(obj(cfg["s"] + 1 + n))      # shifts the numbering of the bystander
                        other.add(o)
                    em.add(o)
                    if c["src"] and n % 2 == 1:
                        other.add(obj(cfg["s"] + 1 + n))
                        other.add(o)
                elif c["call"] == "index":
                    v = em.index(obj(c["src"]))
                    ret, val = "idx", v
                elif c["call"] == "freeze":
                    em.freeze()
            except (ValueError, TypeError, KeyError) as e:
                ret = type(e).__name__
            view = [[ids.get(id(s), -1), k] for s, k in em.sources()]
            steps.append({"i": c, "o": {"ret": ret, "val": val, "sources": view, "size": em.size}})
        return steps

    def random_cfg(self, r):
        return {"s": r.choice([2, 3, 5, 8])}

    def random_schedule(self, r, cfg, length):
        s = cfg["s"]
        for _ in range(length):
            c = r.choice(["add", "add", "add", "index", "index", "query"] + (["freeze"] if r.random() < 0.1 else []))
            yield {"call": c, "src": r.randint(0, s) if c in ("add", "index") else 0}

    def nontrivial(self, s):
        return s["i"]["call"] in ("add", "index")


RULE = ("hardware half: TLC explores EventMon_MC (all sizes<=N, all trigger-mode assignments, every "
        "(pending, prev) state, every input/enable/clear vector), every exported transition is taken on "
        "the real event.Monitor (event map built with shuffled repeats so that bit k must follow the "
        "k-th first-added source) and validated by TLC, plus random monitors of 0-16 sources; API half: "
        "TLC explores every EventMap history up to a depth, every exported (state, call) edge is replayed "
        "on fresh real EventMap objects and validated by TLC. non-trivial = an input/clear bit is high, "
        "or the call is add/index.")


def main(tier):
    return hwcheck.check("C13", tier, [Monitor(), Map()], RULE)


def replay(path):
    return hwcheck.replay(path, [Monitor(), Map()])
