"""C20: signature member tables, equality, create() round trips and port directions against
specs/Ports*.tla.  TLC enumerates the parameter tuples (Ports_MC) and validates every record."""
import json

from . import common, tlc, tracecheck
from .common import Run, rng
from .hw import pmap
from . import hw  # noqa: F401

from amaranth import Module, Shape, unsigned, signed
from amaranth.lib import wiring, enum
from amaranth.lib.wiring import In, Out, flipped
from amaranth_soc import csr, wishbone, event, gpio
from amaranth_soc.csr import action
from amaranth_soc.csr.event import EventMonitor
from amaranth_soc.csr.wishbone import WishboneCSRBridge
from amaranth_soc.wishbone.bus import Feature
from amaranth_soc.wishbone.sram import WishboneSRAM
from amaranth_soc.memory import MemoryMap

FEATS = ["err", "rty", "stall", "lock", "cti", "bte"]


class E2(enum.Enum, shape=unsigned(2)):
    A = 0
    B = 1
    C = 2
    D = 3


def make_sig(cls, p, form=0):
    # every integer parameter is rebuilt, so that two signatures never share the int OBJECTS of their parameters
    p = {k: (int(str(v)) if isinstance(v, int) and not isinstance(v, bool) else v) for k, v in p.items()}
    if cls == "csr.Signature":
        return csr.Signature(addr_width=p["aw"], data_width=p["dw"])
    if cls == "csr.Element.Signature":
        return csr.Element.Signature(p["w"], p["access"] if form % 2 == 0 else csr.Element.Access(p["access"]))
    if cls == "csr.FieldPort.Signature":
        w = p["w"]
        if p["signed"]:
            shape = signed(w) if form % 2 == 0 else Shape(w, True)
        else:
            shape = [unsigned(w), w, range(1 << w) if 0 < w <= 8 else unsigned(w)][form % 3]
            if w == 2 and form % 4 == 3:
                shape = E2
        return csr.FieldPort.Signature(shape, p["access"])
    if cls == "wishbone.Signature":
        fs = [f for f in FEATS if p["feat"][f]]
        feats = {Feature(f) for f in fs} if form % 2 == 0 else set(fs)
        gran = p["gran"]
        if gran == p["dw"] and form % 3 == 1:
            gran = None
        return wishbone.Signature(addr_width=p["aw"], data_width=p["dw"], granularity=gran, features=feats)
    if cls == "event.Source.Signature":
        return event.Source.Signature(trigger=p["trigger"] if form % 2 == 0 else event.Source.Trigger(p["trigger"]))
    if cls == "gpio.PinSignature":
        return gpio.PinSignature()
    raise common.MachineryError(cls)


def flat(sig):
    out = []
    for name, m in sig.members.items():
        if m.is_signature:
            raise common.MachineryError("nested signature in a bus signature")
        out.append([name, "In" if m.flow == In else "Out", Shape.cast(m.shape).width])
    return sorted(out)


def sig_records(job):
    t, others, salt = job
    r = rng("c20", json.dumps(t, sort_keys=True), salt)
    cls, p = t["cls"], t["p"]
    steps = []
    sig = make_sig(cls, p, r.randint(0, 11))
    steps.append({"i": {"kind": "members", "cls": cls, "p": p}, "o": {"members": flat(sig)}})
    try:
        # wiring itself calls create() with integer path items for arrayed members (In(sig).array(n))
        ok = int(sig.create(path=("x",)).signature == sig and sig.create(path=("ports", r.randint(0, 3))).signature == sig)
    except Exception as e:
        ok = 0
    steps.append({"i": {"kind": "roundtrip", "cls": cls, "p": p}, "o": {"ok": ok}})
    for q in [p] + others:
        a, b = make_sig(cls, p, r.randint(0, 11)), make_sig(cls, q, r.randint(0, 11))
        eq = int(a == b)
        if eq != int(b == a):
            eq = 2      # not even symmetric
        steps.append({"i": {"kind": "eq", "cls": cls, "p": p, "q": q}, "o": {"eq": eq}})
    return {"cfg": {"cls": cls}, "steps": steps}


# ---- components and their bus-facing ports ------------------------------------------------------
class Reg(csr.Register, access="rw"):
    def __init__(self, w=8):
        super().__init__({"f": csr.Field(action.RW, w)})


def components(r, n):
    """(description, constructor thunk, port attribute, signature class, parameters, role)"""
    out = []
    for _ in range(n):
        aw, dw = r.choice([2, 3, 5, 8]), r.choice([8, 16, 32])
        kind = r.choice(["mux", "cdec", "bridge", "evmon", "gpio", "wbbridge", "sram", "wdec", "arb"])
        nofeat = {f: 0 for f in FEATS}
        if kind == "mux":
            def mk(aw=aw, dw=dw):
                mm = MemoryMap(addr_width=aw, data_width=dw)
                mm.add_resource(Reg(), name=("r",), size=1)
                return csr.Multiplexer(mm)
            out.append((f"csr.Multiplexer aw={aw} dw={dw}", mk, "bus", "csr.Signature", {"aw": aw, "dw": dw}, "target"))
        elif kind == "cdec":
            out.append((f"csr.Decoder aw={aw} dw={dw}", lambda aw=aw, dw=dw: csr.Decoder(addr_width=aw, data_width=dw),
                        "bus", "csr.Signature", {"aw": aw, "dw": dw}, "target"))
        elif kind == "bridge":
            def mk(aw=aw, dw=dw):
                b = csr.Builder(addr_width=aw, data_width=dw)
                b.add("r", Reg())
                return csr.Bridge(b.as_memory_map())
            out.append((f"csr.Bridge aw={aw} dw={dw}", mk, "bus", "csr.Signature", {"aw": aw, "dw": dw}, "target"))
        elif kind == "evmon":
            nev, al = r.choice([0, 1, 3, 9]), r.choice([0, 1])
            maw = 1 + max((max((nev + dw - 1) // dw, 1) - 1).bit_length(), al)

            def mk(nev=nev, dw=dw, al=al):
                em = event.EventMap()
                for _ in range(nev):
                    em.add(event.Source())
                return EventMonitor(em, data_width=dw, alignment=al)
            out.append((f"csr.event.EventMonitor n={nev} dw={dw} al={al}", mk, "bus", "csr.Signature",
                        {"aw": maw, "dw": dw}, "target"))
        elif kind == "gpio":
            pins = r.choice([1, 4, 9])
            gaw = r.choice([4, 6])
            out.append((f"gpio.Peripheral pins={pins} aw={gaw} dw={dw}",
                        lambda pins=pins, gaw=gaw, dw=dw: gpio.Peripheral(pin_count=pins, addr_width=gaw, data_width=dw),
                        "bus", "csr.Signature", {"aw": gaw, "dw": dw}, "target"))
        elif kind == "wbbridge":
            cdw, wdw = r.choice([(8, 8), (8, 32), (16, 64), (32, 32), (8, 64)])
            caw = r.choice([3, 6])
            lgr = (wdw // cdw).bit_length() - 1

            def mk(cdw=cdw, wdw=wdw, caw=caw):
                cb = csr.Interface(addr_width=caw, data_width=cdw)
                cb.memory_map = MemoryMap(addr_width=caw, data_width=cdw)
                return WishboneCSRBridge(cb, data_width=wdw)
            out.append((f"WishboneCSRBridge csr={cdw} wb={wdw} caw={caw}", mk, "wb_bus", "wishbone.Signature",
                        {"aw": max(0, caw - lgr), "dw": wdw, "gran": cdw, "feat": nofeat}, "target"))
        elif kind == "sram":
            wdw = r.choice([8, 16, 32, 64])
            gran = r.choice([g for g in (8, 16, 32, 64) if g <= wdw])
            size = r.choice([2, 8, 64]) * (wdw // gran)
            depth = size * gran // wdw
            out.append((f"WishboneSRAM size={size} dw={wdw} gran={gran}",
                        lambda size=size, wdw=wdw, gran=gran: WishboneSRAM(size=size, data_width=wdw, granularity=gran),
                        "wb_bus", "wishbone.Signature",
                        {"aw": depth.bit_length() - 1, "dw": wdw, "gran": gran, "feat": nofeat}, "target"))
        else:
            wdw = r.choice([8, 16, 32, 64])
            gran = r.choice([g for g in (8, 16, 32, 64) if g <= wdw])
            feat = {f: r.randint(0, 1) for f in FEATS}
            fs = {Feature(f) for f in FEATS if feat[f]}
            waw = r.choice([0, 4, 10])
            if kind == "wdec":
                out.append((f"wishbone.Decoder aw={waw} dw={wdw} gran={gran} feat={sorted(f for f in feat if feat[f])}",
                            lambda waw=waw, wdw=wdw, gran=gran, fs=fs: wishbone.Decoder(
                                addr_width=waw, data_width=wdw, granularity=gran, features=fs),
                            "bus", "wishbone.Signature", {"aw": waw, "dw": wdw, "gran": gran, "feat": feat}, "target"))
            else:
                out.append((f"wishbone.Arbiter aw={waw} dw={wdw} gran={gran} feat={sorted(f for f in feat if feat[f])}",
                            lambda waw=waw, wdw=wdw, gran=gran, fs=fs: wishbone.Arbiter(
                                addr_width=waw, data_width=wdw, granularity=gran, features=fs),
                            "bus", "wishbone.Signature", {"aw": waw, "dw": wdw, "gran": gran, "feat": feat}, "initiator"))
    # corners, independent of the seed: zero / one address bits with granularity equal to and below the data width
    for waw in (0, 1):
        for wdw, gran in ((8, 8), (32, 32), (32, 8), (64, 16)):
            for feat in ({f: 0 for f in FEATS}, {f: 1 for f in FEATS}):
                fs = {Feature(f) for f in FEATS if feat[f]}
                out.append((f"wishbone.Decoder aw={waw} dw={wdw} gran={gran} feat={sorted(f for f in feat if feat[f])}",
                            lambda waw=waw, wdw=wdw, gran=gran, fs=fs: wishbone.Decoder(
                                addr_width=waw, data_width=wdw, granularity=gran, features=fs),
                            "bus", "wishbone.Signature", {"aw": waw, "dw": wdw, "gran": gran, "feat": feat}, "target"))
                out.append((f"wishbone.Arbiter aw={waw} dw={wdw} gran={gran} feat={sorted(f for f in feat if feat[f])}",
                            lambda waw=waw, wdw=wdw, gran=gran, fs=fs: wishbone.Arbiter(
                                addr_width=waw, data_width=wdw, granularity=gran, features=fs),
                            "bus", "wishbone.Signature", {"aw": waw, "dw": wdw, "gran": gran, "feat": feat}, "initiator"))
    return out


def port_record(desc, mk, attr, cls, p, role):
    comp = mk()
    port = getattr(comp, attr)
    iface = make_sig(cls, p).create(path=("peer",))
    m = Module()
    try:
        if role == "target":
            wiring.connect(m, iface, port)
        else:
            wiring.connect(m, port, flipped(iface))
        ok, why = 1, ""
    except Exception as e:
        ok, why = 0, f"{type(e).__name__}: {e}"
    return {"cfg": {"component": desc},
            "steps": [{"i": {"kind": "port", "cls": cls, "p": p, "role": role},
                       "o": {"members": flat(port.signature), "connect": ok, "why": why}}]}


def main(tier):
    run = Run("C20", tier, level="exploration")
    thorough = tier == "thorough"
    run.cov["rule"] = (
        "TLC (Ports_MC) enumerates the parameter tuples of every signature class (csr.Signature, "
        "csr.Element.Signature, csr.FieldPort.Signature, wishbone.Signature with all 64 feature subsets, "
        "event.Source.Signature, gpio.PinSignature) and checks the role rule on the tables; for every tuple "
        "the harness logs the real signature's flattened members, the create() round trip and == against "
        "itself (rebuilt from equivalent argument forms) and seeded other tuples; for seeded component "
        "instances of every class it logs the bus-facing port's members as seen from the component and the "
        "result of wiring.connect() with the complementary standard interface; TLC validates every record "
        "against Ports.tla. A case is one record; all are non-trivial; distinct = distinct (kind, parameters).")
    res = tlc.run("Ports_MC", "SPECIFICATION Spec\nINVARIANT RolesComplementary\nCHECK_DEADLOCK FALSE\n",
                  workers=4, timeout=600)
    tlc.require_ok(res, "Ports_MC")
    if not res.ok:
        raise common.MachineryError("Ports specification is inconsistent: " + str(res.errors))
    run.add_tlc(res, "Ports_MC: parameter tuples enumerated, roles complementary")
    tuples = res.edges("TUPLE")
    # scale: widths beyond a machine word and beyond CPython's small-integer cache (the specification's role and
    # width rules are stated for any width)
    for w in (257, 320, 1000):
        for acc in ("r", "w", "rw"):
            tuples.append({"cls": "csr.Element.Signature", "p": {"w": w, "access": acc}})
        for sg in (0, 1):
            tuples.append({"cls": "csr.FieldPort.Signature", "p": {"w": w, "signed": sg, "access": "rw"}})
    for aw, dw in ((33, 72), (64, 320)):
        tuples.append({"cls": "csr.Signature", "p": {"aw": aw, "dw": dw}})
    r = rng("c20-main")
    by_cls = {}
    for t in tuples:
        by_cls.setdefault(t["cls"], []).append(t["p"])
    jobs = []
    def differ(p, q):
        return sum(1 for k in p if p[k] != q.get(k))
    for t in tuples:
        pool = by_cls[t["cls"]]
        # every tuple that differs in exactly one parameter (so that each parameter is seen to matter),
        # plus a few arbitrary ones
        near = [q for q in pool if differ(t["p"], q) == 1]
        if len(near) > 12:
            near = r.sample(near, 12)
        # pairs that differ in exactly two parameters: differences must not "compensate" (addr_width vs granularity)
        near2 = [q for q in pool if differ(t["p"], q) == 2]
        if len(near2) > 10:
            near2 = r.sample(near2, 10)
        others = near + near2 + [r.choice(pool) for _ in range(6 if thorough else 3)]
        jobs.append((t, others, 0))
    traces = pmap(sig_records, jobs)
    comps = components(rng("c20-comps"), 400 if thorough else 120)
    seen = set()
    for c in comps:
        if c[0] in seen:
            continue
        seen.add(c[0])
        try:
            traces.append(port_record(*c))
        except Exception as e:
            run.not_observable({"component": c[0], "why": f"{type(e).__name__}: {e}"})
    fails = tracecheck.validate("Ports_Trace", "Pt", traces, run, "structure records")
    for fl in fails:
        tr = traces[fl["trace"]]
        st = tr["steps"][fl["t"] - 1]
        ident = tr["cfg"].get("component") or f"{st['i']['cls']} {json.dumps(st['i'].get('p'), sort_keys=True)}"
        if st["i"]["kind"] == "eq":
            ident += " vs " + json.dumps(st["i"]["q"], sort_keys=True)
        key = f"{st['i']['kind']}:{st['i']['cls']}:{fl['err']}"
        if st["i"]["kind"] == "port":
            key = f"port:{tr['cfg']['component'].split(' ')[0]}:{fl['err']}"
        run.report(key, f"{fl['err']}: {ident} observed {json.dumps(st['o'])[:300]}",
                   {"record": st, "clause": fl["err"], "where": tr["cfg"]})
    for tr in traces:
        run.count(len(tr["steps"]))
        for s in tr["steps"]:
            run.distinct(json.dumps(s["i"], sort_keys=True))
    run.cov["tuples"] = len(tuples)
    run.cov["components"] = len(seen)
    run.cov["exhaustive"] = True
    run.cov["exhaustive_scope"] = "all enumerated signature parameter tuples; component instances are seeded samples"
    run.sample(traces[0]["steps"][0])
    run.sample(traces[-1]["steps"][0])
    return run.finish()


def replay(path):
    """The recorded instance is regenerated from the seed: the whole (short) check is re-run with the
    seed stored in the replay file name and the finding is looked up again."""
    import os
    import re
    with open(path) as f:
        doc = json.load(f)
    m = re.search(r"-(\d+)-\d+\.json$", os.path.basename(path))
    if m:
        os.environ["VERIF_SEED"] = m.group(1)
    print(f"re-running the check for the finding: {doc.get('what', '')[:200]}")
    return main("quick")
