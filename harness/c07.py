"""C07: wishbone.Decoder against specs/WbDecoder*.tla."""
from amaranth.lib import wiring
from . import common, hwcheck
from .common import bits, unbits

from amaranth_soc import wishbone
from amaranth_soc.wishbone.bus import Feature
from amaranth_soc.memory import MemoryMap

FEATS = ["err", "rty", "stall", "lock", "cti", "bte"]
CTI = [0, 1, 2, 7]
MC = """SPECIFICATION Spec
CONSTANTS MaxSubs = {n}
  Export = {export}
VIEW View
ACTION_CONSTRAINT Props
CHECK_DEADLOCK FALSE
"""


def tobytes(v, width):
    return [(v >> (8 * k)) & 0xff for k in range(width // 8)]


def featset(d):
    return {Feature(f) for f in FEATS if d.get(f)}


def lg(x):
    return x.bit_length() - 1


class Adapter:
    module, prefix = "WbDecoder_Trace", "Wd"

    def mc_runs(self, tier):
        n = 3 if tier == "thorough" else 2
        return [("WbDecoder_MC", MC.format(n=n, export="FALSE"),
                 f"WbDecoder_MC <= {n} windows: one cyc, owner = pattern with granularity bits stripped, "
                 "offset, defaults, response relay")]

    def export(self, tier):
        return ("WbDecoder_MC", MC.format(n=2 if tier == "thorough" else 1, export="TRUE"))

    def sizes(self, tier):
        return dict(random_traces=320, length=300, tour_salts=1) if tier == "thorough" else \
            dict(random_traces=96, length=200, tour_salts=1)

    def realize(self, key, cfg, r):
        cfg = dict(cfg)
        cfg["gran"] = 8
        cfg["dw"] = 8 * cfg["g"]
        # dense: same port size as the decoder; sparse: a one-granule-wide subordinate
        cfg["subs"] = [dict(s, dw=cfg["dw"] if s["dense"] else 8, gran=8, explicit=True) for s in cfg["subs"]]
        return cfg

    def build(self, cfg):
        dec = wishbone.Decoder(addr_width=cfg["aw"], data_width=cfg["dw"], granularity=cfg["gran"],
                               features=featset(cfg["feat"]), alignment=cfg.get("al", 0))
        subs = []
        for k, sc in enumerate(cfg["subs"]):
            sb = wishbone.Interface(addr_width=sc["aw"], data_width=sc["dw"], granularity=sc["gran"],
                                    features=featset(sc["feat"]), path=(f"sub{k}",))
            sb.memory_map = MemoryMap(addr_width=max(1, sc["aw"] + lg(sc["dw"] // sc["gran"])),
                                      data_width=sc["gran"])
            # every third subordinate is handed over the way a component's bus port or a nested decoder's .bus is:
            # as a flipped interface (same signals, signature seen from the other side)
            is_flipped = (k + cfg["aw"]) % 3 == 1
            if is_flipped:
                sb = wiring.flipped(sb)
            for a in sc.get("align_to") or []:
                dec.align_to(a)
            retried = k >= 1 and (k + cfg["aw"]) % 2 == 1
            if retried:
                # refused first attempt (on top of the first window), then the real one
                try:
                    dec.add(sb, addr=cfg["subs"][0]["start"], sparse=not sc["dense"])
                except ValueError:
                    pass
                else:
                    raise common.Violation("overlap-accepted", f"wishbone.Decoder.add() accepted a window on top of another: {cfg['subs']}")
            try:
                got = dec.add(sb, name=sc.get("name"), addr=sc["start"] if sc.get("explicit") else None,
                              sparse=not sc["dense"])
            except ValueError as e:
                if retried:
                    raise common.Violation("retry-refused", f"after a refused attempt, wishbone.Decoder.add() refuses the legal window {sc}: {e}")
                if is_flipped:
                    raise common.Violation("flipped-refused", f"wishbone.Decoder.add() refuses a subordinate handed over as a flipped "
                                           f"interface although it accepts the same interface unflipped: {sc}: {e}")
                raise
            if got[0] != sc["start"] or got[1] - got[0] != sc.get("span_map", sc["span"]):
                raise common.MachineryError(f"window placement not reproducible: {sc} -> {got}")
            subs.append(sb)
            if (cfg["aw"] + len(cfg["subs"])) % 2:
                common.poke_map(dec.bus.memory_map, k + cfg["aw"])     # queries while the decoder is being assembled
        # subordinates whose add() was refused are NOT subordinates of this decoder: whatever they do
        # (e.g. respond because another decoder selects them) must not reach this decoder's bus
        outsiders = []
        for k, sc in enumerate(cfg.get("rejected", [])):
            sb = wishbone.Interface(addr_width=sc["aw"], data_width=sc["dw"], granularity=sc["gran"],
                                    features=featset(sc["feat"]), path=(f"out{k}",))
            sb.memory_map = MemoryMap(addr_width=max(1, sc["aw"] + lg(sc["dw"] // sc["gran"])),
                                      data_width=sc["gran"])
            if (k + cfg["aw"]) % 2 == 0:
                sb = wiring.flipped(sb)
            try:
                dec.add(sb, name=sc.get("name"), addr=sc.get("addr"), sparse=not sc["dense"])
            except ValueError:
                outsiders.append(sb)
            else:
                if isinstance(sb, wiring.FlippedInterface):
                    raise common.Violation("flipped-accepted", "wishbone.Decoder.add() accepts, handed over as a flipped interface, "
                                           f"a subordinate it refuses unflipped (window or optional outputs it cannot relay): {sc}")
                raise common.MachineryError("a subordinate recorded as refused was accepted on rebuild")
        b = dec.bus
        ins = {s: getattr(b, s) for s in ("adr", "cyc", "stb", "we", "sel", "dat_w")}
        for s in ("lock", "cti", "bte"):
            if hasattr(b, s):
                ins[s] = getattr(b, s)
        outs = {s: getattr(b, s) for s in ("ack", "dat_r", "err", "rty", "stall") if hasattr(b, s)}
        for k, sb in enumerate(subs):
            for s in ("ack", "dat_r", "err", "rty", "stall"):
                if hasattr(sb, s):
                    ins[f"{s}{k}"] = getattr(sb, s)
            for s in ("cyc", "stb", "we", "adr", "sel", "dat_w", "lock", "cti", "bte"):
                if hasattr(sb, s):
                    outs[f"{s}{k}"] = getattr(sb, s)
        for k, sb in enumerate(outsiders):
            for s in ("ack", "dat_r", "err", "rty", "stall"):
                if hasattr(sb, s):
                    ins[f"x{s}{k}"] = getattr(sb, s)
        return dec, ins, outs, None, False

    def sim_input(self, cfg, i, r):
        d = {"adr": i["adr"], "cyc": i["cyc"], "stb": i["stb"], "we": i["we"], "sel": unbits(i["sel"]),
             "dat_w": i["dat_w"][0]}
        for s in ("lock", "cti", "bte"):
            if cfg["feat"][s]:
                d[s] = i[s]
        for k, sc in enumerate(cfg["subs"]):
            rs = i["subs"][k]
            d[f"ack{k}"] = rs["ack"]
            d[f"dat_r{k}"] = rs["dat_r"][0]
            for s in ("err", "rty", "stall"):
                if sc["feat"][s]:
                    d[f"{s}{k}"] = rs[s]
        return d

    def to_step(self, cfg, i, o):
        dw, g = cfg["dw"], cfg["g"]
        return {"i": {"adr": i["adr"], "cyc": i["cyc"], "stb": i["stb"], "we": i["we"],
                      "lock": i.get("lock", 0), "cti": i.get("cti", 0), "bte": i.get("bte", 0),
                      "sel": bits(i["sel"], g), "dat_w": tobytes(i["dat_w"], dw),
                      "subs": [{"ack": i[f"ack{k}"], "err": i.get(f"err{k}", 0), "rty": i.get(f"rty{k}", 0),
                                "stall": i.get(f"stall{k}", 0), "dat_r": tobytes(i[f"dat_r{k}"], sc["dw"])}
                               for k, sc in enumerate(cfg["subs"])]},
                "o": {"ack": o["ack"], "err": o.get("err", 0), "rty": o.get("rty", 0), "stall": o.get("stall", 0),
                      "dat_r": tobytes(o["dat_r"], dw),
                      "subs": [{"cyc": o[f"cyc{k}"], "stb": o[f"stb{k}"], "we": o[f"we{k}"], "adr": o[f"adr{k}"],
                                "lock": o.get(f"lock{k}", 0), "cti": o.get(f"cti{k}", 0), "bte": o.get(f"bte{k}", 0),
                                "sel": bits(o[f"sel{k}"], sc["dw"] // sc["gran"]),
                                "dat_w": tobytes(o[f"dat_w{k}"], sc["dw"])}
                               for k, sc in enumerate(cfg["subs"])]}}

    def random_cfg(self, r):
        aw = r.choice([2, 3, 4, 6, 8, 12, 16])
        dw = r.choice([8, 16, 32, 64])
        gran = r.choice([x for x in (8, 16, 32, 64) if x <= dw])
        g = dw // gran
        feat = {f: r.randint(0, 1) for f in FEATS}
        al = r.choice([0, 0, 1, 2])
        dec = wishbone.Decoder(addr_width=aw, data_width=dw, granularity=gran, features=featset(feat),
                               alignment=al)
        maw = aw + lg(g)
        subs, pre, rejected = [], [], []
        many = aw >= 6 and r.random() < 0.3              # scale: 6-16 subordinates on one decoder
        share = g >= 4 and r.random() < 0.4             # two or three sparse windows inside ONE decoder word
        for k in range(r.randint(6, 16) if many else r.randint(2 if share else 0, 5)):
            dense = r.random() < 0.65
            if share and k < (3 if g >= 8 else 2):
                dense = False
            sf = {f: r.randint(0, 1) for f in FEATS}
            for f in ("err", "rty", "stall"):
                sf[f] &= feat[f]
            if dense:
                sdw, sgran = dw, gran
                saw = r.randint(1, max(1, aw - (4 if many else 1)))
            else:
                sgran = r.choice([x for x in (8, 16, 32, 64) if x <= gran])
                sdw = sgran
                saw = r.randint(max(1, lg(g)), max(1, lg(g), maw - 1))
                if g > 1 and r.random() < 0.3:
                    saw = r.randint(1, max(1, lg(g) - 1)) if lg(g) > 1 else 1     # narrower than one decoder word
                if share and k < (3 if g >= 8 else 2):
                    saw = 1
            sb = wishbone.Interface(addr_width=saw, data_width=sdw, granularity=sgran, features=featset(sf))
            sb.memory_map = MemoryMap(addr_width=max(1, saw + lg(sdw // sgran)), data_width=sgran)
            in_word = share and k < (3 if g >= 8 else 2)
            if r.random() < 0.2 and not in_word:
                pre.append(r.randint(0, maw - 1))
                dec.align_to(pre[-1])
            addr, explicit = None, False
            if r.random() < 0.4 and not in_word:
                step = 1 << max(sb.memory_map.addr_width, al)
                addr = r.randrange(0, 1 << maw, step)
                explicit = True
            name = r.choice([None, f"w{k}"])
            try:
                start, stop, ratio = dec.add(sb, name=name, addr=addr, sparse=not dense)
            except ValueError:
                if not pre:          # (a pending align_to would not be replayed for a refused add)
                    rejected.append({"dense": int(dense), "aw": saw, "dw": sdw, "gran": sgran, "feat": sf,
                                     "addr": addr, "name": name, "after": len(subs)})
                continue
            # a window padded by the decoder's alignment holds nothing beyond the subordinate's own
            # address space: the addresses that can reach the subordinate are the first 2^aw
            subs.append({"dense": int(dense), "aw": saw, "dw": sdw, "gran": sgran, "feat": sf, "start": start,
                         "span": min(stop - start, 1 << sb.memory_map.addr_width), "span_map": stop - start,
                         "explicit": explicit, "name": name, "align_to": pre})
            pre = []
        # refused subordinates are only replayable when their refusal does not depend on the order of
        # the later accepted ones: keep those refused after the LAST accepted subordinate
        rejected = [x for x in rejected if x["after"] == len(subs)][:2]
        return {"aw": aw, "dw": dw, "gran": gran, "g": g, "feat": feat, "al": al, "subs": subs, "rejected": rejected}

    def random_schedule(self, r, cfg, length):
        aw, dw, g = cfg["aw"], cfg["dw"], cfg["g"]
        subs = cfg["subs"]
        for _ in range(length):
            if subs and r.random() < 0.75:
                sc = r.choice(subs)
                base = sc["start"] // g
                words = max(1, sc["span"] // g)
                adr = (base + r.randrange(-1, words + 1)) % (1 << aw)
            else:
                adr = r.getrandbits(aw)
            d = {"adr": adr, "cyc": int(r.random() < 0.8), "stb": r.randint(0, 1), "we": r.randint(0, 1),
                 "sel": r.getrandbits(g), "dat_w": r.getrandbits(dw)}
            if cfg["feat"]["lock"]:
                d["lock"] = r.randint(0, 1)
            if cfg["feat"]["cti"]:
                d["cti"] = r.choice(CTI)
            if cfg["feat"]["bte"]:
                d["bte"] = r.randint(0, 3)
            a = adr * g
            for k, sc in enumerate(subs):
                selected = sc["start"] <= a < sc["start"] + sc["span"] and d["cyc"]
                d[f"dat_r{k}"] = r.getrandbits(sc["dw"])          # arbitrary also when unselected
                d[f"ack{k}"] = r.randint(0, 1) if selected else 0
                for s in ("err", "rty", "stall"):
                    if sc["feat"][s]:
                        d[f"{s}{k}"] = r.randint(0, 1) if selected else 0
            for k, sc in enumerate(cfg.get("rejected", [])):
                d[f"xack{k}"] = r.randint(0, 1)
                d[f"xdat_r{k}"] = r.getrandbits(sc["dw"])
                for s in ("err", "rty", "stall"):
                    if sc["feat"][s]:
                        d[f"x{s}{k}"] = r.randint(0, 1)
            yield d

    def nontrivial(self, s):
        return bool(s["i"]["cyc"])


RULE = ("leg A: TLC explores WbDecoder_MC (3-bit word addresses, 1-2 granules per word, every set/order of "
        "<=2-3 dense windows, feature subsets on decoder and subordinates, every request vector and every "
        "response of the selected subordinate, unselected read data arbitrary); leg B: every exported vector "
        "applied to the real wishbone.Decoder with mock subordinate interfaces; leg C: random decoders (widths "
        "8-64, all granularities and feature subsets, dense equal-granularity and sparse windows placed "
        "implicitly/explicitly/after align_to, named/anonymous) with behaved subordinates. non-trivial = cyc.")


def main(tier):
    return hwcheck.check("C07", tier, Adapter(), RULE)


def replay(path):
    return hwcheck.replay(path, [Adapter()])
