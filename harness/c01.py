"""C01: the memory map tells the truth about the hardware, end to end (specs/Soc.tla).

A random hierarchy (Wishbone decoder over SRAMs and Wishbone-CSR bridges over nested CSR decoders
over multiplexers with mock registers / csr.Bridge with real registers / event monitor / GPIO) is
assembled from the real components into one module.  For EVERY word address of the root bus,
read and write, with the full select and every single-granule select, one Wishbone transfer is run
and its complete effect logged: acknowledged or not, latency, read data, every register strobe of
every leaf in time order, SRAM word before/after.  TLC validates each transfer against the
expectation the specification derives from the memory maps alone."""
import json

from . import common, hwcheck, tlc, tracecheck, csrmux
from .common import bits, Run, rng
from .hw import pmap, raw
from .memmap import tag

from amaranth import Module
from amaranth.sim import Simulator
from amaranth.lib.memory import Memory
from amaranth_soc import csr, wishbone, event, gpio
from amaranth_soc.csr import action
from amaranth_soc.csr.event import EventMonitor
from amaranth_soc.csr.wishbone import WishboneCSRBridge
from amaranth_soc.wishbone.sram import WishboneSRAM
from amaranth_soc.memory import MemoryMap


def lg(x):
    return x.bit_length() - 1


# ---------------------------------------------------------------------------------------------
# topology generation (a JSON-able description) and assembly from real components
# ---------------------------------------------------------------------------------------------
def gen_leaf(r, cdw, depth):
    k = r.choice(["mux", "mux", "bridge", "evmon", "gpio"] + (["dec", "dec"] if depth < 2 else []))
    name = r.choice([None, "n"])
    if k == "mux":
        aw = r.randint(1, 4)
        regs = []
        for j in range(r.randint(1, 4)):
            size = r.choice([1, 1, 2, 3, 4])
            regs.append({"size": size, "width": r.choice([size * cdw, max(1, size * cdw - r.randint(0, cdw - 1))]),
                         "acc": r.choice(["r", "w", "rw", "rw"]), "addr": r.choice([None, None, r.randrange(1 << aw)]),
                         "value": r.getrandbits(size * cdw)})
        return {"kind": "mux", "aw": aw, "al": r.choice([0, 0, 1]), "regs": regs, "name": name,
                "overlaps": r.choice([None, None, 1, 2])}
    if k == "bridge":
        regs = [{"name": f"r{j}", "scope": r.choice([[], ["grp"], ["grp", 0]]), "width": r.choice([1, cdw, cdw + 3, 2 * cdw, 3 * cdw + 1])}
                for j in range(r.randint(1, 3))]
        return {"kind": "bridge", "aw": r.randint(3, 5), "regs": regs, "name": name}
    if k == "evmon":
        return {"kind": "evmon", "n": r.choice([1, 2, cdw, cdw + 1, 2 * cdw + 3]), "al": r.choice([0, 0, 1]), "name": name}
    if k == "gpio":
        return {"kind": "gpio", "pins": r.choice([1, 3, 4, 5, 9]), "aw": r.randint(3, 5), "name": name}
    kids = [gen_leaf(r, cdw, depth + 1) for _ in range(r.randint(1, 3))]
    # decoder alignments larger than a child's address width pad the child's window: the padding must
    # stay unassigned in the map AND dead in the hardware
    return {"kind": "dec", "kids": kids, "al": r.choice([0, 0, 1, 2, 3]), "name": name, "extra": r.randint(0, 1)}


def gen_soc(r):
    dw = r.choice([8, 16, 32, 32])
    gran = r.choice([g for g in (8, 16) if g <= dw])
    g = dw // gran
    tops = []
    for _ in range(r.randint(1, 4)):
        if r.random() < 0.4:
            tops.append({"kind": "sram", "rows": r.choice([1, 2, 4]) if g > 1 else r.choice([2, 4]),
                         "writable": int(r.random() < 0.8), "name": r.choice([None, "ram"])})
        else:
            tops.append({"kind": "csr", "root": gen_leaf(r, gran, 0), "name": r.choice([None, "csr"])})
    return {"dw": dw, "gran": gran, "g": g, "tops": tops, "al": r.choice([0, 0, 1, 2]), "extra": r.randint(0, 1),
            "seed": r.getrandbits(30)}


class Built:
    pass


def assemble(soc):
    """-> Built: module, root bus, list of leaves (resource objects) ..."""
    m = Module()
    cdw = soc["gran"]
    uid = [0]

    def sub(name, obj):
        uid[0] += 1
        m.submodules[f"{name}{uid[0]}"] = obj

    def leaf_bus(t):
        k = t["kind"]
        if k == "mux":
            mm = MemoryMap(addr_width=t["aw"], data_width=cdw, alignment=t["al"])
            # the multiplexer does not freeze its map: for every other leaf it is constructed BEFORE some of the
            # registers are added (they must be decoded like the others)
            early = csrmux.early_point(len(t["regs"]), t["aw"], [(rc["size"], rc["width"]) for rc in t["regs"]])
            mux = None
            for j, rc in enumerate(t["regs"]):
                if j == early:
                    mux = csr.Multiplexer(mm, shadow_overlaps=t["overlaps"])
                reg = csrmux.MockReg(rc["width"], rc["acc"])
                reg._c01_value = rc["value"] & ((1 << rc["width"]) - 1)
                try:
                    mm.add_resource(reg, name=(f"r{j}",), size=rc["size"],
                                    **({"addr": rc["addr"]} if rc["addr"] is not None else {}))
                except ValueError:
                    continue
            if mux is None:
                mux = csr.Multiplexer(mm, shadow_overlaps=t["overlaps"])
            sub("mux", mux)
            return mux.bus
        if k == "bridge":
            b = csr.Builder(addr_width=t["aw"], data_width=cdw)
            for rc in t["regs"]:
                cms = [b.Cluster(s) if isinstance(s, str) else b.Index(s) for s in rc["scope"]]
                for cm in cms:
                    cm.__enter__()
                b.add(rc["name"], csr.Register({"f": csr.Field(action.RW, rc["width"])}, access="rw"))
                for cm in reversed(cms):
                    cm.__exit__(None, None, None)
            br = csr.Bridge(b.as_memory_map())
            sub("bridge", br)
            return br.bus
        if k == "evmon":
            em = event.EventMap()
            for _ in range(t["n"]):
                em.add(event.Source())
            mon = EventMonitor(em, data_width=cdw, alignment=t["al"])
            sub("evmon", mon)
            return mon.bus
        if k == "gpio":
            p = gpio.Peripheral(pin_count=t["pins"], addr_width=t["aw"], data_width=cdw, input_stages=1)
            sub("gpio", p)
            return p.bus
        kids = [leaf_bus(c) for c in t["kids"]]
        aw = max(kb.addr_width for kb in kids) + lg(len(kids)) + 1 + t["extra"]
        dec = csr.Decoder(addr_width=aw, data_width=cdw, alignment=t["al"])
        for c, kb in zip(t["kids"], kids):
            try:
                dec.add(kb, name=None if c.get("name") is None else f"{c['name']}{uid[0]}_{id(kb) % 97}")
            except ValueError:
                pass
            common.poke_map(dec.bus.memory_map, uid[0] + 1)   # software may abandon a listing half way ...
            list(dec.bus.memory_map.all_resources())      # ... or list a map while it is being assembled
        sub("cdec", dec)
        return dec.bus

    wbs = []
    mem_writable = {}
    for t in soc["tops"]:
        if t["kind"] == "sram":
            s = WishboneSRAM(size=t["rows"] * soc["g"], data_width=soc["dw"], granularity=soc["gran"],
                             writable=bool(t["writable"]))
            sub("sram", s)
            (mem, _, _), = list(s.wb_bus.memory_map.resources())
            mem_writable[id(mem)] = t["writable"]
            wbs.append(("sram", s.wb_bus, t))
        else:
            cb = leaf_bus(t["root"])
            if cb.addr_width < lg(soc["g"]):
                # widen through a decoder so that the bridge has at least one word
                d = csr.Decoder(addr_width=lg(soc["g"]) + 1, data_width=cdw)
                d.add(cb)
                sub("cdec", d)
                cb = d.bus
            br = WishboneCSRBridge(cb, data_width=soc["dw"])
            sub("wbbridge", br)
            wbs.append(("bridge", br.wb_bus, t))
    aw = max(b.addr_width for _, b, _ in wbs) + lg(len(wbs)) + 1 + soc["extra"]
    root = wishbone.Decoder(addr_width=aw, data_width=soc["dw"], granularity=soc["gran"], alignment=soc["al"])
    kinds = {}
    k = 0
    for kind, b, t in wbs:
        k += 1
        try:
            root.add(b, name=None if t.get("name") is None else f"{t['name']}{k}")
            kinds[id(b.memory_map)] = kind
        except ValueError:
            pass
        common.poke_map(root.bus.memory_map, k + (k % 3 == 0))
        list(root.bus.memory_map.all_resources())
        root.bus.memory_map.decode_address(0)
    sub("root", root)
    out = Built()
    out.m, out.root, out.kinds, out.mem_writable = m, root, kinds, mem_writable
    return out


def dump_maps(root_map, kinds):
    """per-level data of every memory map reachable from the root, as the toolkit reports it"""
    maps, ids, res, rid = [], {}, [], {}

    def visit(mm):
        if id(mm) in ids:
            return ids[id(mm)]
        ids[id(mm)] = len(maps) + 1
        rec = {"aw": mm.addr_width, "dw": mm.data_width, "al": mm.alignment, "items": []}
        maps.append(rec)
        me = ids[id(mm)]
        for r, n, (s, e) in mm.resources():
            if id(r) not in rid:
                res.append(r)
                rid[id(r)] = len(res)
            rec["items"].append({"kind": "res", "id": rid[id(r)], "name": tag(n), "start": s, "stop": e, "ratio": 1})
        for w, n, (s, e, q) in mm.windows():
            wid = visit(w)
            rec["items"].append({"kind": "win", "id": wid, "name": tag(n), "start": s, "stop": e, "ratio": q})
        return me
    visit(root_map)
    top = [""] * len(maps)
    for w, n, _ in root_map.windows():
        top[ids[id(w)] - 1] = kinds.get(id(w), "")
    return maps, top, res, rid


def describe(soc):
    b = assemble(soc)
    rm = b.root.bus.memory_map
    maps, top, res, rid = dump_maps(rm, b.kinds)
    leaf = []
    for r in res:
        if isinstance(r, Memory):
            leaf.append({"kind": "mem", "width": 0, "r": 1, "w": b.mem_writable.get(id(r), 0), "const": 0, "value": []})
        else:
            e = r.element
            const = int(hasattr(r, "_c01_value"))
            leaf.append({"kind": "reg", "width": e.width, "r": int(e.access.readable()),
                         "w": int(e.access.writable()), "const": const,
                         "value": bits(getattr(r, "_c01_value", 0), e.width)})
    cfg = {"maps": maps, "g": soc["g"], "cdw": soc["gran"], "top": top, "leaf": leaf,
           "all": [[rid[id(ri.resource)], ri.start, ri.end, ri.width] for ri in rm.all_resources()],
           "decode": [0 if rm.decode_address(a) is None else rid[id(rm.decode_address(a))]
                      for a in range(1 << rm.addr_width)],
           "soc": soc}
    return b, res, cfg


def run_soc(soc):
    """-> trace {"cfg":..., "steps":[...]} : one step per Wishbone transfer"""
    b, res, cfg = describe(soc)
    g, cdw, dw = soc["g"], soc["gran"], soc["dw"]
    bus = b.root.bus
    aw = bus.addr_width
    regs = [(k, r) for k, r in enumerate(res, 1) if not isinstance(r, Memory)]
    mems = [(k, r) for k, r in enumerate(res, 1) if isinstance(r, Memory)]
    r = rng("c01-run", soc["seed"])
    b2b = soc["seed"] % 2 == 1          # every other hierarchy is swept back to back
    sim = Simulator(b.m)
    sim.add_clock(1e-6)
    steps = []
    bound = 4 * (g + 2)

    def lanes(v):
        return [bits((v >> (k * cdw)) & ((1 << cdw) - 1), cdw) for k in range(g)]

    async def tb(ctx):
        for k, reg in regs:
            if hasattr(reg, "_c01_value") and reg.element.access.readable():
                ctx.set(reg.element.r_data, reg._c01_value)

        def snapshot_mem():
            return {k: [ctx.get(m.data[row]) for row in range(m.data.depth)] for k, m in mems}
        plan = []
        for adr in range(1 << aw):
            for we in (0, 1):
                sels = [(1 << g) - 1] + ([1 << q for q in range(g)] if g > 1 else [])
                if g > 2:
                    sels.append(r.getrandbits(g))
                for sel in sels:
                    plan.append((adr, we, sel))
        for (adr, we, sel) in plan:
            dat_w = r.getrandbits(dw)
            before = snapshot_mem()
            ctx.set(bus.adr, adr)
            ctx.set(bus.we, we)
            ctx.set(bus.sel, sel)
            ctx.set(bus.dat_w, dat_w)
            ctx.set(bus.cyc, 1)
            ctx.set(bus.stb, 1)
            events, acked, latency, dat_r = [], 0, 0, 0
            for cyc in range(bound):
                for k, reg in regs:
                    e = reg.element
                    if e.access.readable() and ctx.get(e.r_stb):
                        events.append({"res": k, "kind": "r", "rdata": bits(ctx.get(raw(e.r_data)) & ((1 << e.width) - 1), e.width), "wdata": []})
                    if e.access.writable() and ctx.get(e.w_stb):
                        events.append({"res": k, "kind": "w", "rdata": [], "wdata": bits(ctx.get(raw(e.w_data)) & ((1 << e.width) - 1), e.width)})
                if ctx.get(bus.ack):
                    acked, latency, dat_r = 1, cyc, ctx.get(bus.dat_r)
                    break
                await ctx.tick()
            late = 0
            if b2b:
                # a registered initiator: it holds the request through the cycle in which it samples
                # the acknowledge and presents the next transfer right away (no idle cycle in between)
                await ctx.tick()
            else:
                ctx.set(bus.cyc, 0)
                ctx.set(bus.stb, 0)
                for _ in range(3):
                    await ctx.tick()
                    for k, reg in regs:
                        e = reg.element
                        if (e.access.readable() and ctx.get(e.r_stb)) or (e.access.writable() and ctx.get(e.w_stb)):
                            late += 1
            after = snapshot_mem()
            mem = []
            for k, m_ in mems:
                for row in range(m_.data.depth):
                    if before[k][row] != after[k][row]:
                        mem.append({"res": k, "row": row, "before": lanes(before[k][row]), "after": lanes(after[k][row])})
            steps.append({"i": {"adr": adr, "we": we, "sel": bits(sel, g), "dat_w": lanes(dat_w)},
                          "o": {"acked": acked, "latency": latency, "dat_r": lanes(dat_r), "events": events,
                                "mem": mem, "late": late, "_before": before}})

    sim.add_testbench(tb)
    sim.run()
    # for SRAM accesses the specification wants the addressed word even when it did not change:
    # the harness does not know which word is addressed (that is the property!), so it reports, for an
    # acknowledged transfer without register events and without a memory change, every memory's rows
    # and lets the specification pick the one the map names.
    rm = b.root.bus.memory_map
    for st in steps:
        o = st["o"]
        before = o.pop("_before")
        if o["acked"] and not o["events"] and not o["mem"]:
            # unchanged memory: report the word the MAP says is addressed (if it is a memory), read back
            res_obj = rm.decode_address(st["i"]["adr"] * g)
            if isinstance(res_obj, Memory):
                k = [kk for kk, mm in mems if mm is res_obj][0]
                info = rm.find_resource(res_obj)
                row = st["i"]["adr"] - info.start // g
                if 0 <= row < res_obj.data.depth:
                    o["mem"] = [{"res": k, "row": row, "before": lanes(before[k][row]), "after": lanes(before[k][row])}]
    return {"cfg": cfg, "steps": steps}


def _job(soc):
    try:
        tr = run_soc(soc)
    except Exception as e:
        return {"cfg": {"soc": soc}, "steps": [], "not_observable": f"{type(e).__name__}: {e}"}
    # mark writable memories: a memory is writable iff its SRAM was built writable; found through the map names
    return tr


MC = """SPECIFICATION Spec
CONSTANTS MaxItems = 2
  Export = FALSE
  RootAls = {als}
  Rich = TRUE
VIEW View
CONSTRAINT Bound
INVARIANT PatternAgreesWithMap
CHECK_DEADLOCK FALSE
"""


def main(tier):
    run = Run("C01", tier)
    thorough = tier == "thorough"
    run.cov["rule"] = (
        "leg A: on every tree reachable in MemoryMap_MC whose windows sit at multiples of their size (the "
        "domain's precondition) the PATTERN VIEW (what the generators emit: a window is selected iff the high "
        "address bits equal start >> window.addr_width, the low bits are forwarded) decodes every address to "
        "the same resource as the MAP VIEW, and dropping the precondition yields a counterexample; legs B/C: "
        "seeded random hierarchies of real components (Wishbone decoder over SRAMs and Wishbone-CSR bridges "
        "over nested CSR decoders over multiplexers with mock registers, csr.Bridge with clustered real "
        "registers, event monitors, GPIO; named and anonymous windows, alignments) are assembled into one "
        "module; for EVERY word address of the root, read and write, full select and every single-granule "
        "select, one transfer is simulated and its complete effect (ack/never, latency, read lanes, every "
        "register strobe of every leaf in order with data, SRAM words) validated by TLC against Soc.tla, "
        "together with the real root map's all_resources()/decode_address(). A case is one transfer; "
        "non-trivial = it reaches an assigned address.")
    run.assumptions += ["'never acknowledged' is observed with a bounded wait of 4*(ratio+2) cycles",
                        "dense windows only between buses of equal granularity (C01's domain)"]
    res = tlc.run("MemoryMap_MC", MC.format(als="{0, 1}" if thorough else "{0}"), timeout=2400)
    tlc.require_ok(res, "MemoryMap_MC PatternAgreesWithMap")
    if not res.ok:
        raise common.MachineryError("pattern view disagrees with map view inside the domain: " + res.raw[-2500:])
    run.add_tlc(res, "MemoryMap_MC: PatternAgreesWithMap on every reachable tree (windows at multiples of their size)")
    w = tlc.run("MemoryMap_MC", MC.format(als="{0}").replace("PatternAgreesWithMap", "PatternAgreesEvenUnaligned"),
                timeout=1200)
    if w.violated != "PatternAgreesEvenUnaligned":
        raise common.MachineryError("vacuity: dropping the precondition did not produce a counterexample")
    run.cov["vacuity_witnesses_refuted"] = ["PatternAgreesEvenUnaligned"]
    r = rng("c01")
    socs = [gen_soc(r) for _ in range(120 if thorough else 20)]
    # two delicate leaves in every run, whatever the seed: registers of three bus words that are NOT naturally
    # aligned (an event monitor whose masks land at addresses 0-2 / 3-5; a multiplexer with 3-chunk registers at 1 and 5)
    for k, gran in enumerate((8, 16)):
        dw = gran * (2 if k else 1)
        socs.append({"dw": dw, "gran": gran, "g": dw // gran, "al": 0, "extra": k, "seed": r.getrandbits(30), "tops": [
            {"kind": "csr", "name": None, "root": {"kind": "evmon", "n": 2 * gran + 1 + k * 3, "al": 0, "name": None}},
            {"kind": "csr", "name": "m", "root": {"kind": "mux", "aw": 4, "al": 0, "name": None, "overlaps": None, "regs": [
                {"size": 3, "width": 3 * gran - 1, "acc": "rw", "addr": 1, "value": r.getrandbits(3 * gran)},
                {"size": 3, "width": 3 * gran, "acc": "rw", "addr": 5, "value": r.getrandbits(3 * gran)}]}}]})
    traces = pmap(_job, socs)
    obs = []
    for t in traces:
        if "not_observable" in t:
            run.not_observable({"soc": t["cfg"]["soc"], "why": t["not_observable"]})
        else:
            obs.append(t)
    if len(obs) < len(traces) // 2:
        run.report("unbuildable-majority:soc", f"most hierarchies could not be built: {run.cov['not_observable'][:1]}",
                   {"examples": run.cov["not_observable"][:3]})
    fails = tracecheck.validate("Soc_Trace", "Soc", obs, run, "end-to-end transfers")
    for fl in fails:
        tr = obs[fl["trace"]]
        st = tr["steps"][fl["t"] - 1]
        run.report(f"soc:{fl['err']}:{json.dumps(tr['cfg']['soc'], sort_keys=True)[:120]}",
                   f"end-to-end transfer rejected: {fl['err']}; adr={st['i']['adr']} we={st['i']['we']} "
                   f"sel={st['i']['sel']} observed acked={st['o']['acked']} events={st['o']['events'][:3]}",
                   {"soc": tr["cfg"]["soc"], "transfer": st, "clause": fl["err"],
                    "all_resources": tr["cfg"]["all"], "maps": tr["cfg"]["maps"]})
    nres = 0
    for t in obs:
        run.count(len(t["steps"]))
        nres += len(t["cfg"]["leaf"])
        ck = json.dumps(t["cfg"]["soc"], sort_keys=True)
        for s in t["steps"]:
            run.distinct((ck, json.dumps(s["i"], sort_keys=True)), bool(s["o"]["acked"]))
    run.cov["hierarchies"] = len(obs)
    run.cov["leaves"] = nres
    if obs:
        run.sample({"soc": obs[0]["cfg"]["soc"], "all_resources": obs[0]["cfg"]["all"], "transfer": obs[0]["steps"][1]})
    return run.finish()


def replay(path):
    with open(path) as f:
        doc = json.load(f)
    soc = doc["replay"].get("soc")
    if soc is None:
        print(f"replay file {path} carries no hierarchy; finding was: {doc.get('what')}")
        return common.EXIT_MACHINERY
    tr = _job(soc)
    if "not_observable" in tr:
        print("hierarchy cannot be built on this tree: " + tr["not_observable"])
        return common.EXIT_MACHINERY
    fails = tracecheck.validate("Soc_Trace", "Soc", [tr])
    if fails:
        st = tr["steps"][fails[0]["t"] - 1]
        print(f"VIOLATION property=C01 replay={path}\n  what: {fails[0]['err']} at adr={st['i']['adr']} we={st['i']['we']}")
        return common.EXIT_VIOLATION
    print(f"replay of {path}: all {len(tr['steps'])} transfers accepted on this tree")
    return common.EXIT_OK
