from . import arbiter


def main(tier):
    return arbiter.main("C08", tier)


def replay(path):
    return arbiter.replay(path)
