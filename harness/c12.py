"""C12: csr.action field actions against specs/FieldAction*.tla."""
from . import common
from .common import bits, unbits
from . import hwcheck

from amaranth import unsigned, signed
from amaranth.lib import enum
from amaranth_soc.csr import action


class E2(enum.Enum, shape=unsigned(2)):
    A = 0
    B = 1
    C = 2
    D = 3


class E3(enum.Enum, shape=unsigned(3)):
    A = 0
    B = 1
    C = 2
    D = 3
    E = 4
    F = 5
    G = 6
    H = 7


RES = ["ResRAW0", "ResRAWL", "ResR0WA", "ResR0W0"]

MC = """SPECIFICATION Spec
CONSTANTS MaxW = {w}
  Export = {export}
VIEW View
INVARIANT HoldsLastWritten
INVARIANT TypeOK
ACTION_CONSTRAINT Props
CHECK_DEADLOCK FALSE
"""


def shape_of(cfg):
    w = cfg["w"]
    s = cfg.get("shape", "unsigned")
    if s == "signed":
        return signed(w)
    if s == "enum":
        return {2: E2, 3: E3}[w]
    return unsigned(w)


class Adapter:
    module, prefix = "FieldAction_Trace", "Fa"

    def mc_runs(self, tier):
        w = 4 if tier == "thorough" else 3
        return [("FieldAction_MC", MC.format(w=w, export="FALSE"),
                 f"FieldAction_MC MaxW={w}: per-bit rules, HoldsLastWritten, pass-through")]

    def vacuity(self, tier):
        return [("FieldAction_MC", MC.format(w=1, export="FALSE") + "PROPERTY StorageNeverChanges\n",
                 "StorageNeverChanges")]

    def export(self, tier):
        return ("FieldAction_MC", MC.format(w=3 if tier == "thorough" else 2, export="TRUE"))

    def sizes(self, tier):
        return dict(random_traces=400, length=300, tour_salts=2) if tier == "thorough" else \
            dict(random_traces=96, length=200, tour_salts=1)

    def realize(self, key, cfg, r):
        cfg = dict(cfg)
        cfg["shape"] = r.choice(["unsigned", "signed"] + (["enum"] if cfg["w"] in (2, 3) else []))
        cfg["res"] = r.choice(RES)
        return cfg

    def build(self, cfg):
        kind = cfg["kind"]
        shape = shape_of(cfg)
        init = unbits(cfg["init"])
        if kind == "Res":
            a = getattr(action, cfg.get("res", "ResRAW0"))(shape)
        elif kind in ("R", "W"):
            a = getattr(action, kind)(shape)
        else:
            if cfg.get("shape") == "signed" and init >= 1 << (cfg["w"] - 1):
                init -= 1 << cfg["w"]
            if cfg.get("shape") == "enum":
                init = shape(init)
            a = getattr(action, kind)(shape, init=init)
        ins = {"r_stb": a.port.r_stb, "w_stb": a.port.w_stb, "w_data": a.port.w_data}
        outs = {"port_r_data": a.port.r_data}
        for nm in ("r_data", "set", "clear"):
            if hasattr(a, nm):
                ins[nm] = getattr(a, nm)
        for nm in ("data", "r_stb", "w_stb", "w_data"):
            if hasattr(a, nm):
                outs[nm] = getattr(a, nm)
        return a, ins, outs, None, kind in ("RW", "RW1C", "RW1S")

    def sim_input(self, cfg, i, r):
        d = {"r_stb": i["r_stb"], "w_stb": i["w_stb"], "w_data": unbits(i["w_data"])}
        if cfg["kind"] == "R":
            d["r_data"] = unbits(i["r_data"])
        if cfg["kind"] == "RW1C":
            d["set"] = unbits(i["set"])
        if cfg["kind"] == "RW1S":
            d["clear"] = unbits(i["clear"])
        return d

    def to_step(self, cfg, i, o):
        w = cfg["w"]
        m = (1 << w) - 1
        return {"i": {"r_stb": i["r_stb"], "w_stb": i["w_stb"], "w_data": bits(i["w_data"] & m, w),
                      "r_data": bits(i.get("r_data", 0) & m, w), "set": bits(i.get("set", 0) & m, w),
                      "clear": bits(i.get("clear", 0) & m, w)},
                "o": {"port_r_data": bits(o["port_r_data"] & m, w), "data": bits(o.get("data", 0) & m, w),
                      "r_stb": o.get("r_stb", 0), "w_stb": o.get("w_stb", 0),
                      "w_data": bits(o.get("w_data", 0) & m, w)}}

    def random_cfg(self, r):
        w = r.choice([1, 2, 3, 4, 5, 7, 8, 12, 16])
        cfg = {"kind": r.choice(["R", "W", "RW", "RW", "RW1C", "RW1C", "RW1S", "RW1S", "Res"]),
               "w": w, "init": bits(r.getrandbits(w), w)}
        cfg["shape"] = r.choice(["unsigned", "signed"] + (["enum"] if w in (2, 3) else []))
        cfg["res"] = r.choice(RES)
        return cfg

    def random_schedule(self, r, cfg, length):
        w = cfg["w"]
        sparse = r.random() < 0.5
        for _ in range(length):
            def vec():
                v = r.getrandbits(w)
                if sparse:
                    v &= r.getrandbits(w)
                return v
            yield self.sim_input(cfg, {"r_stb": r.randint(0, 1), "w_stb": r.randint(0, 1),
                                       "w_data": bits(vec(), w), "r_data": bits(vec(), w),
                                       "set": bits(vec(), w), "clear": bits(vec(), w)}, r)

    def nontrivial(self, s):
        i = s["i"]
        return bool(i["w_stb"] or i["r_stb"] or any(i["set"]) or any(i["clear"]))


RULE = ("leg A: TLC explores FieldAction_MC (every kind x width x init x storage state x input "
        "vector); leg B: each exported transition is taken on the real csr.action class by an edge "
        "tour (unsigned/signed/enum shapes) and validated by TLC; leg C: random widths 1-16, shapes, "
        "inits under random per-cycle inputs. A case is one (configuration, storage, input) cycle; "
        "non-trivial = a strobe or a set/clear bit is active.")


def main(tier):
    return hwcheck.check("C12", tier, Adapter(), RULE)


def replay(path):
    return hwcheck.replay(path, [Adapter()])
