"""Run TLC under a timeout and parse what it printed."""
import json
import os
import re
import subprocess
import threading
import time

from .common import SPECS, scratch, MachineryError

JAR = "/opt/veriftools/tla/tla2tools.jar:/opt/veriftools/tla/CommunityModules-deps.jar"


class TLCResult:
    def __init__(self):
        self.ok = False             # finished without any error
        self.generated = 0
        self.distinct = 0
        self.errors = []            # "Error: ..." lines
        self.violated = None        # name of violated invariant / property, or "assert"
        self.assert_payload = None
        self.last_state = {}        # var -> text, from the last state of an error trace
        self.trace_states = []      # list of dicts var -> text
        self.prints = []            # PrintT lines (raw)
        self.coverage_zero = []
        self.raw = ""
        self.wall = 0.0
        self.timed_out = False

    def edges(self, tag="EDGE"):
        """PrintT(<<tag, ToJson(x)>>) lines -> list of decoded x."""
        out = []
        pat = re.compile(r'^<<"' + re.escape(tag) + r'", (".*")>>$')
        for line in self.prints:
            m = pat.match(line)
            if m:
                out.append(json.loads(json.loads(m.group(1))))
        return out


_counter = [0]
_lock = threading.Lock()


def run(module, cfg, *, workers=None, env=None, timeout=600, simulate=None, depth=None,
        coverage=False, extra=(), jvm=(), spec_dir=SPECS, seed=None):
    """cfg: text of a TLC configuration file.  simulate: None or number of behaviours."""
    with _lock:
        _counter[0] += 1
        work = os.path.join(scratch(), f"tlc{_counter[0]}")
    os.makedirs(work, exist_ok=True)
    cfg_path = os.path.join(work, module + ".cfg")
    with open(cfg_path, "w") as f:
        f.write(cfg)
    if workers is None:
        workers = os.cpu_count() or 4
    # measured on this box: the serial collector is 2-5x faster for wide model-checking runs
    # (ParallelGC/G1 spend most of their time in the kernel); JSON-heavy trace validation is
    # fastest with 4 workers and 4 parallel GC threads.
    gc = list(jvm) if any("GC" in o for o in jvm) else ["-XX:+UseSerialGC", *jvm]
    # TLC leaves an empty tlc-<n> directory in java.io.tmpdir per run: keep it inside the scratch directory
    cmd = ["java", *gc, "-Xmx12g", "-Xss16m", "-Djava.io.tmpdir=" + work, "-cp", JAR, "tlc2.TLC",
           "-workers", str(workers), "-metadir", os.path.join(work, "meta"),
           "-noGenerateSpecTE", "-config", cfg_path]
    if simulate is not None:
        cmd += ["-simulate", f"num={simulate}"]
        if seed is not None:
            cmd += ["-seed", str(seed)]
    if depth is not None:
        cmd += ["-depth", str(depth)]
    if coverage:
        cmd += ["-coverage", "1"]
    cmd += list(extra)
    cmd.append(os.path.join(spec_dir, module + ".tla"))
    e = dict(os.environ)
    if env:
        e.update({k: str(v) for k, v in env.items()})
    res = TLCResult()
    t0 = time.time()
    try:
        p = subprocess.run(cmd, cwd=work, env=e, stdout=subprocess.PIPE, stderr=subprocess.STDOUT,
                           timeout=timeout, text=True, errors="replace")
        out = p.stdout
        rc = p.returncode
    except subprocess.TimeoutExpired as ex:
        out = ex.stdout if isinstance(ex.stdout, str) else (ex.stdout or b"").decode(errors="replace")
        rc = -1
        res.timed_out = True
        subprocess.run(["pkill", "-f", work], check=False)
    res.wall = time.time() - t0
    res.raw = out
    _parse(res, out)
    res.ok = (rc == 0 and not res.errors and not res.timed_out)
    res.rc = rc
    return res


_STATE_HDR = re.compile(r"^State (\d+):")


def _parse(res, out):
    lines = out.splitlines()
    cur = None
    curvar = None
    in_cov = False
    for line in lines:
        if line.startswith("<<\""):
            res.prints.append(line)
            continue
        m = re.search(r"(\d+) states generated, (\d+) distinct states found", line)
        if m:
            res.generated = int(m.group(1))
            res.distinct = int(m.group(2))
        if line.startswith("Error:"):
            res.errors.append(line)
            m = re.match(r"Error: Invariant (\S+) is violated", line)
            if m:
                res.violated = m.group(1)
            m = re.match(r"Error: Action property (\S+) is violated", line)
            if m:
                res.violated = m.group(1)
            m = re.match(r"Error: Temporal property (\S+) was violated", line)
            if m:
                res.violated = res.violated or m.group(1)
            if "Temporal properties were violated" in line:
                res.violated = res.violated or "temporal"
            if "Deadlock reached" in line:
                res.violated = "deadlock"
        if "The first argument of Assert evaluated to FALSE; the second argument was:" in line:
            res.violated = "assert"
            curvar = "__assert"
            res.assert_payload = ""
            continue
        if curvar == "__assert":
            if line.strip() == "" or line.startswith("Error:") or _STATE_HDR.match(line):
                curvar = None
            else:
                res.assert_payload += line.strip()
                continue
        m = _STATE_HDR.match(line)
        if m:
            cur = {}
            res.trace_states.append(cur)
            curvar = None
            continue
        if cur is not None:
            m = re.match(r"^(?:/\\ )?(\w+) = (.*)$", line)
            if m and (line.startswith("/\\ ") or len(cur) == 0):
                curvar = m.group(1)
                cur[curvar] = m.group(2)
            elif line.strip() == "":
                cur = None
                curvar = None
            elif curvar and curvar != "__assert":
                cur[curvar] += " " + line.strip()
        if "<" in line and ": 0" in line and "line" in line and "col" in line:
            # coverage line with zero count:  <Action line .. of module M>: 0:0
            m = re.match(r"^\s*<(\w+) line .* of module (\w+)>: 0:0", line)
            if m:
                res.coverage_zero.append(m.group(1))
    if res.trace_states:
        res.last_state = res.trace_states[-1]


def require_ok(res, what):
    """Machinery-level sanity: TLC itself must have run (parse errors, crashes -> exit 2)."""
    bad = [e for e in res.errors if any(s in e for s in (
        "Parsing or semantic analysis failed", "TLC threw an unexpected exception",
        "could not be found", "Unknown operator", "java.lang", "was not able to", "attempted to"))]
    if res.timed_out:
        raise MachineryError(f"TLC timed out: {what}")
    if bad or (res.generated == 0 and not res.errors and res.rc != 0):
        raise MachineryError(f"TLC failed on {what}:\n" + res.raw[-3000:])
    if res.rc != 0 and not res.errors:
        raise MachineryError(f"TLC exit {res.rc} on {what}:\n" + res.raw[-3000:])


def simulate_behaviours(module, cfg, num, depth, wanted, seed=0, workers=4, timeout=900,
                        spec_dir=SPECS):
    """Let TLC generate `num` random behaviours per worker of `module` (simulation mode) and return
    them as lists of states (dict var -> parsed value) restricted to the `wanted` variables."""
    import glob
    import shutil
    from . import tlaval
    with _lock:
        _counter[0] += 1
        out = os.path.join(scratch(), f"sim{_counter[0]}")
    os.makedirs(out, exist_ok=True)
    res = run(module, cfg, workers=workers, timeout=timeout, depth=depth, spec_dir=spec_dir,
              extra=["-simulate", f"file={out}/b,num={num}", "-seed", str(seed)])
    require_ok(res, f"{module} -simulate")
    if res.errors:
        raise MachineryError(f"{module} -simulate reported: {res.errors[:2]}\n{res.raw[-2000:]}")
    m = re.search(r"The number of states generated: (\d+)", res.raw)
    res.generated = int(m.group(1)) if m else 0
    behs = []
    for path in sorted(glob.glob(os.path.join(out, "b_*"))):
        behs.append(tlaval.behaviour_file(path, set(wanted)))
    shutil.rmtree(out, ignore_errors=True)
    return res, behs
