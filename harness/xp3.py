"""Beyond the listed properties: the system of XP2 with a full CSR side, against specs/SocSys2.tla.

N abiding initiators -> wishbone.Arbiter -> wishbone.Decoder -> { WishboneSRAM, WishboneCSRBridge -> csr.Decoder ->
{ csr.Bridge (registers), csr.event.EventMonitor, gpio.Peripheral } }.  SocSys2.tla composes WbArbiter, WbSram,
WbCsrBridge, CsrMux, CsrEventMon and Gpio; only the CSR decoder's routing is new.  Seeded random real systems
run under random abiding initiators with random event lines and pin levels; every cycle's acknowledges, read
data, SRAM contents, register storage, interrupt line and every pin's o / oe / alt are validated by TLC.
Not in MANIFEST.json; evidence in evidence/XP3.json."""
import json

from . import common, hw, tracecheck, xp2
from .common import Run, rng, bits

from amaranth import Module
from amaranth.lib import wiring
from amaranth_soc import csr, event, gpio, wishbone
from amaranth_soc.csr import action
from amaranth_soc.csr.event import EventMonitor
from amaranth_soc.csr.wishbone import WishboneCSRBridge
from amaranth_soc.wishbone.sram import WishboneSRAM


def lg(x):
    return x.bit_length() - 1


def _csr_side(cfg):
    """-> (decoder, register bridge, registers, monitor, sources, gpio peripheral, windows)"""
    cdw = cfg["cdw"]
    b = csr.Builder(addr_width=cfg["raw"], data_width=cdw)
    regs = []
    for k, rc in enumerate(cfg["regs"]):
        if rc["kind"] == "rw":
            reg = csr.Register({"f": csr.Field(action.RW, rc["width"], init=common.unbits(rc["init"]))}, access="rw")
        else:
            reg = csr.Register({"f": csr.Field(action.R, rc["width"])}, access="r")
        b.add(f"r{k}", reg, offset=rc["start"] * (cdw // 8))
        regs.append(reg)
    cbr = csr.Bridge(b.as_memory_map())
    srcs = [event.Source(trigger=m, path=(f"s{k}",)) for k, m in enumerate(cfg["emon"]["modes"])]
    em = event.EventMap()
    for s in srcs:
        em.add(s)
    mon = EventMonitor(em, trigger="level", data_width=cdw, alignment=cfg["emon"]["al"])
    gp = gpio.Peripheral(pin_count=cfg["gpio"]["pins"], addr_width=cfg["gpio"]["aw"], data_width=cdw,
                         input_stages=cfg["gpio"]["stages"])
    dec = csr.Decoder(addr_width=cfg["csr"]["caw"], data_width=cdw)
    wins = []
    for sub in (cbr.bus, mon.bus, gp.bus):
        start, stop, _ = dec.add(sub)
        wins.append({"start": start, "aw": sub.addr_width})
    return dec, cbr, regs, mon, srcs, gp, wins


def _layout(mm):
    return [{"start": ri.start, "stop": ri.end} for ri in mm.all_resources()]


def random_cfg(r):
    cdw = r.choice([8, 8, 16])
    g = r.choice([x for x in (1, 2, 4) if x * cdw <= 64])
    rows = r.choice([1, 2, 4, 8]) if g > 1 else r.choice([2, 4, 8])
    raw = r.choice([2, 3, 4])
    regs, cur = [], 0
    for k in range(r.randint(1, 3)):
        size = r.choice([1, 1, 2, g])
        width = r.choice([size * cdw, max(1, size * cdw - r.randint(0, cdw - 1))])
        al = (size - 1).bit_length()
        start = -(-cur // (1 << al)) * (1 << al)
        if start + size > (1 << raw):
            break
        kind = r.choice(["rw", "rw", "ro"])
        regs.append({"start": start, "stop": start + size, "width": width, "r": 1, "w": int(kind == "rw"),
                     "kind": kind, "init": bits(r.getrandbits(width), width) if kind == "rw" else bits(0, width)})
        cur = start + size
    n = r.choice([1, 2, 5, cdw, cdw + 3])
    emon = {"n": n, "dw": cdw, "al": r.choice([0, 0, 1]), "modes": [r.choice(["level", "rise", "fall"]) for _ in range(n)]}
    while True:
        gcfg = {"pins": r.choice([1, 2, 4, 5, 9]), "dw": cdw, "aw": r.choice([3, 4, 5, 6]), "stages": r.choice([0, 1, 2, 3])}
        try:
            gpio.Peripheral(pin_count=gcfg["pins"], addr_width=gcfg["aw"], data_width=cdw, input_stages=gcfg["stages"])
            break
        except ValueError:
            continue
    cfg = {"n": r.choice([1, 2, 2, 3]), "lock": r.randint(0, 1), "g": g, "cdw": cdw, "raw": raw, "regs": regs,
           "emon": emon, "gpio": gcfg, "csr": {"start": 0, "caw": 0}, "seed": r.getrandbits(40)}
    # the CSR decoder must hold the three windows and at least one Wishbone word
    probe = dict(cfg, csr={"start": 0, "caw": 12})
    _, cbr, _, mon, _, gp, wins = _csr_side(probe)
    top = max(w["start"] + (1 << w["aw"]) for w in wins)
    caw = max((top - 1).bit_length(), lg(g) + 1) + r.choice([0, 1])
    cfg["csr"]["caw"] = caw
    cfg["wins"] = wins
    cfg["emon"]["regs"] = _layout(mon.bus.memory_map)
    cfg["gpio"]["regs"] = _layout(gp.bus.memory_map)
    cwords = (1 << caw) // g
    sizes = [("sram", rows), ("csr", cwords)]
    r.shuffle(sizes)
    at, starts = 0, {}
    for name, size in sizes:
        at = -(-at // size) * size + size * r.choice([0, 0, 1])
        starts[name] = at
        at += size
    cfg["waw"] = max(1, (at - 1).bit_length() + r.choice([0, 1]))
    wb = g * cdw
    cfg["sram"] = {"start": starts["sram"], "rows": rows, "writable": int(r.random() < 0.8),
                   "init": [bits(r.getrandbits(wb), wb) for _ in range(rows)]}
    cfg["csr"]["start"] = starts["csr"]
    return cfg


def build(cfg):
    g, cdw, n = cfg["g"], cfg["cdw"], cfg["n"]
    dw = g * cdw
    feats = {"lock"} if cfg["lock"] else set()
    m = Module()
    dec, cbr, regs, mon, srcs, gp, wins = _csr_side(cfg)
    if wins != cfg["wins"] or _layout(mon.bus.memory_map) != cfg["emon"]["regs"] or \
            _layout(gp.bus.memory_map) != cfg["gpio"]["regs"]:
        raise common.MachineryError("the CSR side is not laid out as when the configuration was drawn")
    m.submodules.regs = cbr
    m.submodules.mon = mon
    m.submodules.gpio = gp
    m.submodules.csr_dec = dec
    wbr = WishboneCSRBridge(dec.bus, data_width=dw)
    m.submodules.wb_bridge = wbr
    sram = WishboneSRAM(size=cfg["sram"]["rows"] * g, data_width=dw, granularity=cdw,
                        writable=bool(cfg["sram"]["writable"]), init=[common.unbits(w) for w in cfg["sram"]["init"]])
    m.submodules.sram = sram
    wdec = wishbone.Decoder(addr_width=cfg["waw"], data_width=dw, granularity=cdw, features=feats)
    s_rng = wdec.add(sram.wb_bus, addr=cfg["sram"]["start"] * g)
    c_rng = wdec.add(wbr.wb_bus, addr=cfg["csr"]["start"] * g)
    if s_rng[0] != cfg["sram"]["start"] * g or c_rng[0] != cfg["csr"]["start"] * g:
        raise common.MachineryError("window not where it was asked for")
    m.submodules.decoder = wdec
    arb = wishbone.Arbiter(addr_width=cfg["waw"], data_width=dw, granularity=cdw, features=feats)
    ins, outs = {}, {}
    for k in range(n):
        ib = wishbone.Interface(addr_width=cfg["waw"], data_width=dw, granularity=cdw, features=feats, path=(f"i{k}",))
        arb.add(ib)
        for s in ("cyc", "stb", "we", "adr", "sel", "dat_w") + (("lock",) if cfg["lock"] else ()):
            ins[f"{s}{k}"] = getattr(ib, s)
        outs[f"ack{k}"] = ib.ack
        outs[f"dat_r{k}"] = ib.dat_r
    m.submodules.arbiter = arb
    wiring.connect(m, arb.bus, wdec.bus)
    for k, (rc, reg) in enumerate(zip(cfg["regs"], regs)):
        if rc["kind"] == "rw":
            outs[f"store{k}"] = reg.f.f.data
        else:
            ins[f"ro{k}"] = reg.f.f.r_data
    for k, s in enumerate(srcs):
        ins[f"ev{k}"] = s.i
    outs["irq"] = mon.src.i
    outs["alt"] = gp.alt_mode
    for k, p in enumerate(gp.pins):
        ins[f"pin{k}"] = p.i
        outs[f"o{k}"] = p.o
        outs[f"oe{k}"] = p.oe
    (mem, _, _), = list(sram.wb_bus.memory_map.resources())
    data = mem.data
    rows = cfg["sram"]["rows"]

    def hook(ctx):
        return {"mem": [ctx.get(data[r]) for r in range(rows)]}
    return m, ins, outs, hook


def to_step(cfg, i, o):
    s = xp2.to_step(cfg, i, o)
    ne, P = cfg["emon"]["n"], cfg["gpio"]["pins"]
    s["i"]["ev"] = [i[f"ev{k}"] for k in range(ne)]
    s["i"]["pins"] = [i[f"pin{k}"] for k in range(P)]
    s["o"].update(irq=o["irq"], o=[o[f"o{k}"] for k in range(P)], oe=[o[f"oe{k}"] for k in range(P)], alt=bits(o["alt"], P))
    return s


def record(job):
    cfg, length = job
    m, ins, outs, hook = build(cfg)
    r = rng("xp3-run", cfg["seed"])
    g = cfg["g"]
    hot = list(range(cfg["sram"]["start"], cfg["sram"]["start"] + cfg["sram"]["rows"]))
    chunks = [cfg["wins"][0]["start"] + c for rc in cfg["regs"] for c in range(rc["start"], rc["stop"])]
    chunks += [cfg["wins"][1]["start"] + c for x in cfg["emon"]["regs"] for c in range(x["start"], x["stop"])]
    chunks += [cfg["wins"][2]["start"] + c for x in cfg["gpio"]["regs"] for c in range(x["start"], x["stop"])]
    hot += sorted({cfg["csr"]["start"] + c // g for c in chunks})
    inner = xp2.abiding_drivers(r, cfg, length, hot=hot)
    ne, P = cfg["emon"]["n"], cfg["gpio"]["pins"]
    lines = {"ev": [0] * ne, "pin": [0] * P}
    p_flip = r.choice([0.02, 0.1, 0.4])

    def driver(obs):
        d = inner(obs)
        if d is None:
            return None
        for k in range(ne):
            if r.random() < p_flip:
                lines["ev"][k] ^= 1
            d[f"ev{k}"] = lines["ev"][k]
        for k in range(P):
            if r.random() < p_flip:
                lines["pin"][k] ^= 1
            d[f"pin{k}"] = lines["pin"][k]
        return d
    log = hw.simulate(m, ins, outs, driver, hook=hook)
    pub = {k: v for k, v in cfg.items() if k not in ("seed", "raw")}
    return {"cfg": pub, "steps": [to_step(cfg, i, o) for i, o in log]}


def main(tier):
    run = Run("XP3", tier)
    run.cov["rule"] = __doc__.split("\n\n")[1] + " A case is one clock cycle; non-trivial = some initiator requests."
    run.assumptions += ["initiators abide by the Wishbone protocol",
                        "where several initiators interleave partial accesses to one multi-chunk register the component "
                        "specifications leave the data unconstrained (U), as C04/C05 state"]
    r = rng("xp3-cfg")
    ncfg, length = (120, 500) if tier == "thorough" else (36, 350)
    jobs = [(random_cfg(r), length) for _ in range(ncfg)]
    traces = hw.pmap(record, jobs)
    for t in traces:
        run.traces(1)
        for s in t["steps"]:
            run.count(1)
            run.distinct(json.dumps(s["i"], sort_keys=True), any(q["cyc"] and q["stb"] for q in s["i"]["intr"]))
    fails = tracecheck.validate("SocSys2_Trace", "Sys2", traces, run, "SocSys2")
    for f in fails:
        t = traces[f["trace"]]
        run.report(f"{f['err']}", f"the real system disagrees with SocSys2.tla at cycle {f['t']}: {f['err']} "
                   f"(cfg {json.dumps(t['cfg'])[:300]})", {"kind": "xp3", "trace": t, "t": f["t"], "err": f["err"]})
    run.cov["irq_cycles"] = sum(s["o"]["irq"] for t in traces for s in t["steps"])
    run.cov["csr_acks"] = sum(q["ack"] for t in traces for s in t["steps"] for q in s["o"]["intr"])
    return run.finish()


def replay(path):
    rec = json.load(open(path))
    fails = tracecheck.validate("SocSys2_Trace", "Sys2", [rec["trace"]])
    print("replay:", "rejected at cycle %d: %s" % (fails[0]["t"], fails[0]["err"]) if fails else "accepted")
    return common.EXIT_VIOLATION if fails else common.EXIT_OK
