"""Generic three-leg check of one clocked (or combinational) component against its
specification module.  A component adapter supplies:

    module, prefix            trace module name ("X_Trace") and operator prefix ("X" -> XInit/XStep/XCheck)
    mc_runs(tier)             [(module, cfg_text, label)]      leg A model-checking runs (must pass)
    vacuity(tier)             [(module, cfg_text, expected_violation)]   witnesses that must be refuted
    export(tier)              (module, cfg_text) or None       prints CFG {key,cfg} and EDGE {key,s,i,t}
    realize(key, cfg, r)      spec configuration -> full real configuration (adds real widths ...)
    build(cfg)                -> (design, ins, outs, hook or None, clocked)
    sim_input(cfg, i, r)      spec input record -> simulator input dict (inverse of to_step)
    to_step(cfg, i, o)        simulator dicts -> {"i":..., "o":...} of the specification
    random_cfg(r), random_schedule(r, cfg, length)
    nontrivial(step)          is this cycle a non-trivial case
    sizes(tier)               dict(random_traces=, length=, tour_salts=)
"""
import json

from . import common, tlc, tracecheck
from .common import Run, rng
from .hw import simulate, pmap, tour

_AD = None


def _seq(steps):
    it = iter(steps)
    return lambda obs: next(it, None)


def record(ad, cfg, steps):
    if hasattr(ad, "run_history"):      # sequential API object: steps are the calls themselves
        return {"cfg": cfg, "steps": ad.run_history(cfg, steps)}
    built = ad.build(cfg)
    design, ins, outs = built[0], built[1], built[2]
    hook = built[3] if len(built) > 3 else None
    clocked = built[4] if len(built) > 4 else True
    # every other configuration is simulated on its SECOND elaboration (a user may well have
    # converted or simulated the instance before): the hardware must be the same then
    if common.rng("pre-elab", json.dumps(cfg, sort_keys=True, default=str)).random() < 0.5:
        from amaranth.hdl import Fragment
        Fragment.get(design, None)
    if callable(steps):
        log = simulate(design, ins, outs, steps, hook=hook, clocked=clocked)
    else:
        log = simulate(design, ins, outs, _seq(steps), hook=hook, clocked=clocked)
    return {"cfg": cfg, "steps": [ad.to_step(cfg, i, o) for i, o in log]}


def _record_job(job):
    cfg, steps = job
    if isinstance(steps, tuple) and steps and steps[0] == "driver":
        # reactive stimulus (depends on the observations): built inside the worker
        steps = _AD.random_schedule(rng("driver", steps[1]), cfg, steps[2])
    stim = job[1]
    try:
        tr = record(_AD, cfg, steps)
        tr["stim"] = list(stim) if isinstance(stim, tuple) else (stim if isinstance(stim, list) else None)
        return tr
    except common.Violation as v:
        return {"cfg": cfg, "steps": [], "not_observable": f"violation: {v.what}", "violation": [v.key, v.what]}
    except Exception as e:   # construction/elaboration problems belong to C19 ...
        judge = getattr(_AD, "classify_exception", None)
        v = judge(cfg, e) if judge else None          # ... unless the property itself promises this configuration works
        if v:
            return {"cfg": cfg, "steps": [], "not_observable": f"violation: {v[1]}", "violation": list(v)}
        return {"cfg": cfg, "steps": [], "not_observable": f"{type(e).__name__}: {e}"}


def _tour_job(job):
    """Returns a list of traces (one per walk; a restart = a fresh object from its initial state)."""
    key, cfg, edges, s0, salt = job
    ad = _AD
    r = rng("tour", ad.module, key, salt)
    real = ad.realize(key, cfg, r)
    walks, left = tour(edges, s0, r)
    out = []
    for n, walk in enumerate(walks):
        steps = [ad.sim_input(real, json.loads(i), r) for (_, i, _) in walk]
        try:
            tr = record(ad, real, steps)
            tr["stim"] = steps
        except common.Violation as v:
            tr = {"cfg": real, "steps": [], "not_observable": f"violation: {v.what}", "violation": [v.key, v.what]}
        except Exception as e:
            tr = {"cfg": real, "steps": [], "not_observable": f"{type(e).__name__}: {e}"}
        tr["walk_len"] = len(walk)
        tr["edges_left"] = left if n == 0 else 0
        tr["key"] = key
        out.append(tr)
    return out


def report_failures(run, ad, traces, fails, tag):
    for fl in fails:
        tr = traces[fl["trace"]]
        t = fl["t"]
        ident = json.dumps(tr["cfg"], sort_keys=True)
        stim = tr.get("stim")
        if isinstance(stim, list) and stim and stim[0] != "driver":
            stim = stim[:t]
        run.report(f"{tag}:{fl['err']}:{ident[:300]}",
                   f"{ad.module} trace rejected at step {t}, clause {fl['err']}, cfg {ident[:200]}",
                   {"kind": "hw-trace", "adapter": adapter_id(ad), "cfg": tr["cfg"], "stim": stim,
                    "failing_step": t, "clause": fl["err"], "steps": tr["steps"][max(0, t - 6):t]})


def adapter_id(ad):
    return getattr(ad, "replay_id", None) or f"{type(ad).__module__}.{type(ad).__name__}:{ad.module}"


def replay(path, adapters):
    """Re-execute exactly the stimulus of a replay file on the current working tree and re-validate it."""
    global _AD
    with open(path) as f:
        doc = json.load(f)
    rp = doc["replay"]
    if rp.get("kind") != "hw-trace" or rp.get("stim") is None:
        print(f"replay file {path} carries no stimulus ({rp.get('kind')}); finding was: {doc.get('what')}")
        return common.EXIT_MACHINERY
    ad = next((a for a in adapters if adapter_id(a) == rp["adapter"]), None)
    if ad is None:
        raise common.MachineryError(f"no adapter {rp['adapter']} for {path}")
    _AD = ad
    stim = rp["stim"]
    if stim and stim[0] == "driver":
        stim = tuple(stim)
    tr = _record_job((rp["cfg"], stim))
    if "violation" in tr:
        print(f"VIOLATION property={doc['property']} replay={path}\n  what: {tr['violation'][1]}")
        return common.EXIT_VIOLATION
    if "not_observable" in tr:
        print(f"not observable on this tree: {tr['not_observable']}")
        return common.EXIT_MACHINERY
    fails = tracecheck.validate(ad.module, ad.prefix, [tr])
    if fails:
        fl = fails[0]
        print(f"VIOLATION property={doc['property']} replay={path}\n  what: still rejected at step {fl['t']}, "
              f"clause {fl['err']} (originally step {rp['failing_step']}, clause {rp['clause']})")
        return common.EXIT_VIOLATION
    print(f"replay of {path}: accepted by the specification on this tree ({len(tr['steps'])} steps)")
    return common.EXIT_OK


def check(prop, tier, ads, rule, level="model_checking"):
    """ads: one adapter or a list of adapters whose legs all count towards the same property."""
    run = Run(prop, tier, level)
    run.cov["rule"] = rule
    run.assumptions += ["Amaranth's Python simulator is the semantics of the elaborated design"]
    for ad in (ads if isinstance(ads, (list, tuple)) else [ads]):
        check_into(run, prop, tier, ad)
    return run.finish()


def check_into(run, prop, tier, ad):
    global _AD
    _AD = ad
    # ---- leg A ---------------------------------------------------------------------------
    for module, cfg_text, label in ad.mc_runs(tier):
        res = tlc.run(module, cfg_text, timeout=2400, workers=getattr(ad, "mc_workers", None))
        tlc.require_ok(res, label)
        if not res.ok:
            raise common.MachineryError(
                f"specification {module} does not imply its properties ({label}): "
                + str(res.assert_payload or res.errors) + "\n" + res.raw[-2500:])
        run.add_tlc(res, label)
    for module, cfg_text, expected in getattr(ad, "vacuity", lambda t: [])(tier):
        res = tlc.run(module, cfg_text, timeout=900, workers=4)
        if res.violated != expected and not (expected == "assert" and res.violated == "assert"):
            raise common.MachineryError(f"vacuity witness {expected} of {module} was not refuted "
                                        f"(got {res.violated})\n" + res.raw[-1500:])
        run.cov.setdefault("vacuity_witnesses_refuted", []).append(f"{module}:{expected}")
    # ---- leg B ---------------------------------------------------------------------------
    sizes = ad.sizes(tier)
    ex = ad.export(tier)
    if ex is not None:
        module, cfg_text = ex
        res = tlc.run(module, cfg_text, timeout=2400, workers=4)
        tlc.require_ok(res, f"{module} export")
        if not res.ok:
            raise common.MachineryError(f"export run of {module} failed: {res.errors}\n" + res.raw[-2000:])
        run.add_tlc(res, f"{module} export of the transition relation")
        cfgs = {json.dumps(c["key"], sort_keys=True): (c["cfg"], json.dumps(c["s0"], sort_keys=True))
                for c in res.edges("CFG")}
        edges = {}
        for e in res.edges("EDGE"):
            edges.setdefault(json.dumps(e["key"], sort_keys=True), set()).add(
                (json.dumps(e["s"], sort_keys=True), json.dumps(e["i"], sort_keys=True),
                 json.dumps(e["t"], sort_keys=True)))
        jobs = []
        for key in sorted(edges):
            for salt in range(sizes.get("tour_salts", 1)):
                jobs.append((key, cfgs[key][0], sorted(edges[key]), cfgs[key][1], salt))
        tours = [t for ts in pmap(_tour_job, jobs) for t in ts]
        run.cov.setdefault("tours", {})[ad.module] = {"configurations": len(edges),
                           "edges_exported": sum(len(e) for e in edges.values()),
                           "cycles_walked": sum(t["walk_len"] for t in tours),
                           "edges_not_reached": sum(t["edges_left"] for t in tours
                                                    if "not_observable" not in t)}
        if run.cov["tours"][ad.module]["edges_not_reached"]:
            raise common.MachineryError("edge tour could not reach some exported transitions")
        obs_t = []
        for t in tours:
            if "violation" in t:
                run.report(t["violation"][0], t["violation"][1], {"cfg": t["cfg"]})
            elif "not_observable" in t:
                run.not_observable({"cfg": t["cfg"], "why": t["not_observable"]})
            else:
                obs_t.append(t)
        fails = tracecheck.validate(ad.module, ad.prefix, obs_t, run, "tour traces (leg B)")
        report_failures(run, ad, obs_t, fails, "tour")
        for t in obs_t:
            run.count(len(t["steps"]))
            for s in t["steps"]:
                run.distinct((t["key"], json.dumps(s["i"], sort_keys=True)), ad.nontrivial(s))
        if obs_t:
            run.sample({"tour_cfg": obs_t[-1]["cfg"], "steps": obs_t[-1]["steps"][1:3]})
        run.cov["exhaustive"] = True
        run.cov["exhaustive_scope"] = ("every transition of the bounded model-checking family, on "
                                       "the model and on the real design; the random part is sampled")
    # ---- leg C ---------------------------------------------------------------------------
    r = rng("random", ad.module, prop)
    jobs = []
    for _ in range(sizes["random_traces"]):
        cfg = ad.random_cfg(r)
        if getattr(ad, "reactive", False):
            jobs.append((cfg, ("driver", r.getrandbits(40), sizes["length"])))
        else:
            jobs.append((cfg, list(ad.random_schedule(r, cfg, sizes["length"]))))
    traces = pmap(_record_job, jobs)
    obs_t = []
    for t in traces:
        if "violation" in t:
            run.report(t["violation"][0], t["violation"][1], {"cfg": t["cfg"]})
        elif "not_observable" in t:
            run.not_observable({"cfg": t["cfg"], "why": t["not_observable"]})
        else:
            obs_t.append(t)
    if len(obs_t) < len(traces) // 2:
        # single unbuildable configurations are C19's business; when MOST in-domain configurations
        # cannot even be built or elaborated the property cannot hold for them either
        run.report(f"unbuildable-majority:{ad.module}",
                   f"{len(traces) - len(obs_t)} of {len(traces)} in-domain configurations of {ad.module} "
                   f"could not be built/elaborated, e.g. {run.cov['not_observable'][:1]}",
                   {"examples": run.cov["not_observable"][:5]})
    fails = tracecheck.validate(ad.module, ad.prefix, obs_t, run, "random traces (leg C)")
    report_failures(run, ad, obs_t, fails, "random")
    for t in obs_t:
        run.count(len(t["steps"]))
        ck = json.dumps(t["cfg"], sort_keys=True)
        for s in t["steps"][:60]:
            run.distinct((ck, json.dumps(s["i"], sort_keys=True)), ad.nontrivial(s))
    if obs_t:
        run.sample({"random_cfg": obs_t[0]["cfg"], "step": obs_t[0]["steps"][min(3, len(obs_t[0]["steps"]) - 1)]})
    extra = getattr(ad, "extra", None)
    if extra is not None:
        extra(run, tier)
