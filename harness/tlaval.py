"""Parser for TLA+ values as TLC prints them (records, tuples, sets, functions, ints, strings,
booleans), and for the behaviour files written by `tlc -simulate file=...`."""
import re

_TOK = re.compile(r'\s*(<<|>>|\|->|:>|@@|\[|\]|\{|\}|\(|\)|,|-?\d+|"(?:[^"\\]|\\.)*"|[A-Za-z_][A-Za-z0-9_]*)')


def parse(text):
    toks = _TOK.findall(text)
    pos = [0]

    def peek():
        return toks[pos[0]] if pos[0] < len(toks) else None

    def take(x=None):
        t = toks[pos[0]]
        if x is not None and t != x:
            raise ValueError(f"expected {x}, got {t} in {text[:80]!r}")
        pos[0] += 1
        return t

    def value():
        t = take()
        if t == "<<":
            out = []
            while peek() != ">>":
                out.append(value())
                if peek() == ",":
                    take()
            take(">>")
            return out
        if t == "[":
            out = {}
            while peek() != "]":
                k = take()
                take("|->")
                out[k] = value()
                if peek() == ",":
                    take()
            take("]")
            return out
        if t == "{":
            out = []
            while peek() != "}":
                out.append(value())
                if peek() == ",":
                    take()
            take("}")
            return {"__set__": out}
        if t == "(":
            out = {}
            while True:
                k = value()
                take(":>")
                out[k if isinstance(k, (int, str)) else repr(k)] = value()
                if peek() == "@@":
                    take()
                    continue
                break
            take(")")
            if out and all(isinstance(k, int) for k in out) and sorted(out) == list(range(1, len(out) + 1)):
                return [out[k] for k in sorted(out)]
            return out
        if t.startswith('"'):
            return t[1:-1]
        if t == "TRUE":
            return True
        if t == "FALSE":
            return False
        if re.fullmatch(r"-?\d+", t):
            return int(t)
        return t   # model value / identifier

    v = value()
    return v


def behaviour_file(path, wanted):
    """-> list of states, each a dict var -> parsed value, restricted to `wanted` variables."""
    states = []
    cur = None
    var = None
    buf = []

    def flush():
        nonlocal var, buf
        if var is not None and cur is not None and var in wanted:
            cur[var] = parse(" ".join(buf))
        var, buf = None, []

    with open(path) as f:
        for line in f:
            if line.startswith("STATE_"):
                flush()
                cur = {}
                states.append(cur)
                continue
            m = re.match(r"^/\\ (\w+) = (.*)$", line)
            if m:
                flush()
                var = m.group(1)
                buf = [m.group(2)]
                continue
            if line.startswith("\\*") or line.startswith("----") or line.startswith("===="):
                flush()
                continue
            if var is not None:
                buf.append(line.strip())
    flush()
    return states
