"""Deductive legs: TLAPS proofs and Apalache inductive-invariant checks of the abstract modules.

These decide nothing about the code by themselves - they establish, for EVERY size, properties of abstract
specifications which (a) MemoryMap.tla / WbArbiter.tla are model-checked by TLC to refine and (b) the real
code is trace-validated against.  A failure here is a failure of the machinery (exit 2), never a VIOLATION.

`./check PROOFS` runs everything; C02 and C09 call `run_for(prop, run)` and record the outcome as evidence."""
import os
import re
import shutil
import subprocess
import time

from . import common
from .common import SPECS, scratch, MachineryError

TLAPS = {
    "C02": [("MemoryMapAbs_Proof", ["MemoryMapAbs_Proof.tla", "MemoryMapAbs.tla", "MemoryMapAbsOps.tla"])],
    "C18": [("NamesAbs_Proof", ["NamesAbs_Proof.tla", "NamesAbs.tla", "NamesAbsOps.tla"])],
    "C09": [("WbArbiterAbs_Proof", ["WbArbiterAbs_Proof.tla", "WbArbiterAbs.tla", "WbArbiterAbsOps.tla"])],
}
# (module, files, [(label, args, expect_ok)])
APALACHE = {
    "C02": [("MemoryMapAbs_Apa", ["MemoryMapAbs_Apa.tla", "MemoryMapAbs.tla", "MemoryMapAbsOps.tla"], [
        ("base: AInit => IndInv", ["--cinit=CInit", "--init=AInit", "--inv=IndInv", "--next=ANext", "--length=0"], True),
        ("step: IndInv /\\ ANext => IndInv' (unbounded integers, <= 6 items)",
         ["--cinit=CInit", "--init=IndInit", "--inv=IndInv", "--next=ANext", "--length=1"], True),
        ("control: without the overlap guard the step is refuted",
         ["--cinit=CInit", "--init=IndInit", "--inv=IndInv", "--next=BrokenNext", "--length=1"], False),
    ])],
}


def _copy(files):
    d = os.path.join(scratch(), f"proof{time.time_ns()}")
    os.makedirs(d)
    for f in files:
        shutil.copy(os.path.join(SPECS, f), d)
    return d


def tlaps(module, files, timeout=900):
    if not shutil.which("tlapm"):
        raise MachineryError("tlapm is not installed")
    d = _copy(files)
    t0 = time.time()
    for stretch in ("1", "8"):          # second attempt with longer back-end timeouts (loaded machine)
        p = subprocess.run(["tlapm", "--threads", "4", "--stretch", stretch, module + ".tla"], cwd=d,
                           capture_output=True, text=True, timeout=timeout, env={**os.environ, "TMPDIR": d})
        out = p.stdout + p.stderr
        m = re.search(r"All (\d+) obligations? proved", out)
        if p.returncode == 0 and m:
            break
    if p.returncode != 0 or not m:
        raise MachineryError(f"TLAPS did not prove {module}: " + out[-1500:])
    return {"module": module, "obligations": int(m.group(1)), "wall_s": round(time.time() - t0, 1)}


def apalache(module, files, label, args, expect_ok, timeout=900):
    if not shutil.which("apalache-mc"):
        raise MachineryError("apalache-mc is not installed")
    d = _copy(files)
    t0 = time.time()
    p = subprocess.run(["apalache-mc", "check", *args, "--out-dir=" + os.path.join(d, "out"), module + ".tla"],
                       cwd=d, capture_output=True, text=True, timeout=timeout,
                       env={**os.environ, "TMPDIR": d, "JVM_ARGS": "-Xmx4g -Djava.io.tmpdir=" + d})
    out = p.stdout + p.stderr
    ok = "EXITCODE: OK" in out
    refuted = "EXITCODE: ERROR (12)" in out
    if expect_ok and not ok:
        raise MachineryError(f"Apalache: {module} {label}: " + out[-1500:])
    if not expect_ok and not refuted:
        raise MachineryError(f"Apalache: {module} {label}: the control was not refuted: " + out[-1500:])
    shutil.rmtree(d, ignore_errors=True)
    return {"module": module, "check": label, "result": "holds" if ok else "refuted (as it must be)",
            "wall_s": round(time.time() - t0, 1)}


def _guard(strict, tool, what, fn):
    """The proofs concern specification files only, so a code change cannot make them fail; inside a property
    check (strict=False) an environment problem (tool absent, back-end timeout on a loaded machine) is
    recorded, not raised - `./check PROOFS` and `./check selftest` are strict."""
    try:
        return {"tool": tool, **fn()}
    except (MachineryError, subprocess.TimeoutExpired, OSError) as e:
        if strict:
            raise MachineryError(str(e))
        return {"tool": tool, "module": what, "result": "NOT re-established in this run: " + str(e)[:300]}


def run_for(prop, run=None, with_apalache=True, strict=False):
    done = []
    for module, files in TLAPS.get(prop, []):
        done.append(_guard(strict, "tlapm", module, lambda: tlaps(module, files)))
    if with_apalache:
        for module, files, checks in APALACHE.get(prop, []):
            for label, args, expect in checks:
                done.append(_guard(strict, "apalache-mc", module,
                                   lambda: apalache(module, files, label, args, expect)))
    if run is not None:
        run.cov.setdefault("deductive", []).extend(done)
        for d in done:
            print("deductive:", d["tool"], d.get("module"), d.get("check", ""),
                  f"{d['obligations']} obligations proved" if "obligations" in d else d.get("result"))
    return done


# the proof must fail once the clause that carries the argument is removed from the abstract module
CONTROLS = [
    ("C02", "MemoryMapAbs_Proof", "MemoryMapAbsOps.tla", "/\\ \\A it \\in its : Apart(it, NewRange(s, n))", "/\\ TRUE",
     "CanAdd without the overlap test"),
    ("C18", "NamesAbs_Proof", "NamesAbsOps.tla", "        /\\ ~f1[m]\n        /\\ FreeIn(C, v1[m], n)", "        /\\ FreeIn(C, v1[m], n)",
     "a frozen (hence possibly absorbed) map may still take a new name"),
    ("C09", "WbArbiterAbs_Proof", "WbArbiterAbsOps.tla", "/\\ \\A j \\in 1..(k - 1) : RAhead(n, g, j) \\notin R", "/\\ TRUE",
     "RClosest without minimality (any requester may be granted)"),
]


def negative_controls():
    rows = []
    for prop, module, victim, old, new, what in CONTROLS:
        files = dict(TLAPS[prop])[module]
        d = _copy(files)
        path = os.path.join(d, victim)
        text = open(path).read()
        if old not in text:
            raise MachineryError(f"negative control: clause not found in {victim}")
        open(path, "w").write(text.replace(old, new, 1))
        p = subprocess.run(["tlapm", "--threads", "4", module + ".tla"], cwd=d, capture_output=True, text=True,
                           timeout=900, env={**os.environ, "TMPDIR": d})
        proved = p.returncode == 0 and re.search(r"All \d+ obligations? proved", p.stdout + p.stderr) is not None
        rows.append({"property": prop, "control": what, "proved": proved})
        shutil.rmtree(d, ignore_errors=True)
    return rows


def main(tier):
    for prop in sorted(set(TLAPS) | set(APALACHE)):
        for d in run_for(prop, strict=True):
            print(prop, d)
    return 0
