"""C11: csr.Register packing against specs/CsrReg*.tla."""
import json
from . import common, hwcheck
from .common import bits, unbits

from amaranth import Module, unsigned, signed
from amaranth.lib import enum
from amaranth_soc import csr

MC = """SPECIFICATION Spec
CONSTANTS Export = {export}
VIEW View
INVARIANT PackingOK
ACTION_CONSTRAINT Props
CHECK_DEADLOCK FALSE
"""


class E2(enum.Enum, shape=unsigned(2)):
    A = 0
    B = 1
    C = 2
    D = 3


class Probe(csr.FieldAction):
    """Field action with an empty body: the field port's signals are free for the testbench."""
    def __init__(self, shape, access):
        super().__init__(shape, access)

    def elaborate(self, platform):
        return Module()


def shape_for(leaf):
    s = leaf.get("shape", "unsigned")
    if s == "signed" and leaf["w"] > 0:
        return signed(leaf["w"])
    if s == "enum" and leaf["w"] == 2:
        return E2
    return unsigned(leaf["w"])


def to_fields(t, memo=None):
    """memo (a dict): structurally identical sub-collections become ONE Python object used in several places
    (an aliased, still acyclic nest - what gpio.Peripheral itself does with its per-pin dict)"""
    if t["k"] == "leaf":
        return csr.Field(Probe, shape_for(t), t["acc"])
    key = json.dumps(t, sort_keys=True)
    if memo is not None and key in memo:
        return memo[key]
    if t["k"] == "dict":
        out = {k: to_fields(c, memo) for k, c in zip(t["keys"], t["kids"])}
    else:
        out = [to_fields(c, memo) for c in t["kids"]]
    if memo is not None:
        memo[key] = out
    return out


def walk(t, node):
    """field action objects in declaration order, found by walking the collection (not flatten())"""
    if t["k"] == "leaf":
        return [(t, node)]
    out = []
    if t["k"] == "dict":
        for k, c in zip(t["keys"], t["kids"]):
            out += walk(c, node[k])
    else:
        for j, c in enumerate(t["kids"]):
            out += walk(c, node[j])
    return out


def construct(cfg):
    t, how = cfg["tree"], cfg.get("how", "arg")
    # every other configuration shares structurally identical sub-collections as one object
    memo = {} if (len(json.dumps(t)) % 2 == 0 or (t["k"] == "dict" and t.get("keys", [None])[0] == "rx")) else None
    if how == "annot" and t["k"] == "dict":
        ann = {k: to_fields(c, memo) for k, c in zip(t["keys"], t["kids"])}
        base = csr.Register
        if len(t["keys"]) % 2 == 1:
            # an annotated class derived from another annotated class that has ALREADY been instantiated: the derived
            # class's own annotations are what counts
            base = type("BaseReg", (csr.Register,), {"__annotations__": {"zz": csr.Field(Probe, unsigned(3), "rw")}})
            base(access="rw")
        cls = type("AnnReg", (base,), {"__annotations__": ann})
        return cls(access=cfg["access"])
    if how == "subclass":
        cls = type("SubReg", (csr.Register,), {}, access=cfg["access"])
        return cls(to_fields(t, memo))
    return csr.Register(to_fields(t, memo), access=cfg["access"])


class Adapter:
    module, prefix = "CsrReg_Trace", "Rg"

    def mc_runs(self, tier):
        return [("CsrReg_MC", MC.format(export="FALSE"),
                 "CsrReg_MC: nested shapes x all access assignments x all values: packing, slices, strobe fan-out")]

    def export(self, tier):
        return ("CsrReg_MC", MC.format(export="TRUE"))

    def sizes(self, tier):
        return dict(random_traces=600, length=60, tour_salts=1) if tier == "thorough" else \
            dict(random_traces=160, length=40, tour_salts=1)

    def realize(self, key, cfg, r):
        cfg = dict(cfg)
        cfg["how"] = r.choice(["arg", "annot", "subclass"])
        return cfg

    def run_history(self, cfg, steps):
        """first step: construction; then cycles (skipped when construction is refused)"""
        try:
            reg = construct(cfg)
        except (ValueError, TypeError):
            return [{"i": {"kind": "construct"}, "o": {"ok": 0}}]
        out = [{"i": {"kind": "construct"}, "o": {"ok": 1}}]
        if callable(steps):
            steps = []
        if not steps:
            return out
        try:
            fields = walk(cfg["tree"], reg.f)
        except (KeyError, IndexError, AttributeError, TypeError) as e:
            raise common.Violation("field-collection", f"the register built from {json.dumps(cfg['tree'])[:160]} ({cfg.get('how')}) "
                                   f"does not expose the declared field collection: {type(e).__name__} {e}")
        e = reg.element
        ins, outs = {}, {"r_data": e.r_data} if e.access.readable() else {}
        if e.access.readable():
            ins["r_stb"] = e.r_stb
        if e.access.writable():
            ins["w_stb"] = e.w_stb
            ins["w_data"] = e.w_data
        for j, (leaf, f) in enumerate(fields):
            ins[f"fr{j}"] = f.port.r_data
            outs[f"rs{j}"] = f.port.r_stb
            outs[f"ws{j}"] = f.port.w_stb
            outs[f"wd{j}"] = f.port.w_data
        W = e.width
        from .hw import simulate
        seq = [{k: v for k, v in s.items() if k in ins} for s in steps]
        it = iter(seq)
        log = simulate(reg, ins, outs, lambda obs: next(it, None), clocked=False)
        for s, (i, o) in zip(steps, log):
            out.append({"i": {"kind": "cycle", "r_stb": i.get("r_stb", 0), "w_stb": i.get("w_stb", 0),
                              "w_data": bits(i.get("w_data", 0), W),
                              "f_r_data": [bits(i[f"fr{j}"] & ((1 << leaf["w"]) - 1), leaf["w"])
                                           for j, (leaf, _) in enumerate(fields)]},
                        "o": {"r_data": bits(o.get("r_data", 0), W),
                              "fields": [{"r_stb": o[f"rs{j}"], "w_stb": o[f"ws{j}"],
                                          "w_data": bits(o[f"wd{j}"] & ((1 << leaf["w"]) - 1), leaf["w"])}
                                         for j, (leaf, _) in enumerate(fields)]}})
        return out

    def sim_input(self, cfg, i, r):
        d = {"r_stb": i["r_stb"], "w_stb": i["w_stb"], "w_data": unbits(i["w_data"])}
        for j, v in enumerate(i["f_r_data"]):
            d[f"fr{j}"] = unbits(v)
        return d

    def random_cfg(self, r):
        def tree(depth):
            x = r.random()
            if depth >= 3 or x < 0.45:
                w = r.choice([0, 1, 1, 2, 3, 5, 8, 16])
                return {"k": "leaf", "w": w, "acc": r.choice(["r", "w", "rw", "rw", "nc"]),
                        "shape": r.choice(["unsigned", "signed", "enum"])}
            n = r.randint(1, 3)
            if x < 0.75:
                return {"k": "dict", "keys": r.sample(["a", "b", "c", "d", "_e"], n), "kids": [tree(depth + 1) for _ in range(n)]}
            return {"k": "list", "kids": [tree(depth + 1) for _ in range(n)]}
        t = tree(0)
        if r.random() < 0.25:
            # one list (or dict) referenced from two places, one level down: {"rx": {"lane": L}, "tx": {"lane": L}}
            shared = tree(2)
            if shared["k"] == "leaf":
                shared = {"k": "list", "kids": [shared, tree(3)]}
            t = {"k": "dict", "keys": ["rx", "tx", "z"],
                 "kids": [{"k": "dict", "keys": ["lane"], "kids": [shared]}, {"k": "dict", "keys": ["lane"], "kids": [shared]}, t]}
        elif r.random() < 0.2:
            # distinct paths that look alike once joined with "__": ("ch", 0) and ("ch__0",), ("g", "x") and ("g__x",) -
            # each field has its own bit range, whatever the fields are called
            def leaf():
                return {"k": "leaf", "w": r.choice([1, 3, 4, 8]), "acc": r.choice(["rw", "rw", "r", "w"]),
                        "shape": r.choice(["unsigned", "signed", "enum"])}
            if r.random() < 0.5:
                t = {"k": "dict", "keys": ["ch", "ch__0", "z"], "kids": [{"k": "list", "kids": [leaf(), leaf()]}, leaf(), t]}
            else:
                t = {"k": "dict", "keys": ["g__x", "g", "z"], "kids": [leaf(), {"k": "dict", "keys": ["x", "y"], "kids": [leaf(), leaf()]}, t]}
        return {"access": r.choice(["r", "w", "rw", "rw", "rw"]), "tree": t, "how": r.choice(["arg", "annot", "subclass"])}

    def random_schedule(self, r, cfg, length):
        leaves = []

        def coll(t):
            if t["k"] == "leaf":
                leaves.append(t)
            else:
                for c in t["kids"]:
                    coll(c)
        coll(cfg["tree"])
        W = sum(l["w"] for l in leaves)
        steps = []
        for k in range(length):
            d = {"r_stb": r.randint(0, 1), "w_stb": r.randint(0, 1)}
            mode = k % 3
            d["w_data"] = (1 << (k % max(W, 1))) if mode == 0 else ((1 << W) - 1 if mode == 1 else r.getrandbits(W) if W else 0)
            for j, l in enumerate(leaves):
                w = l["w"]
                d[f"fr{j}"] = (r.getrandbits(w) if w else 0) if mode != 1 else (1 << w) - 1
            steps.append(d)
        return steps

    def nontrivial(self, s):
        return s["i"].get("kind") == "construct" or bool(s["i"].get("r_stb") or s["i"].get("w_stb"))

    def extra(self, run, tier):
        """The configurations of the model family that must be REFUSED have no transitions to tour:
        their construction step is executed on the real csr.Register all the same (three ways)."""
        import json
        from . import tlc, tracecheck
        res = tlc.run("CsrReg_MC", MC.format(export="TRUE"), workers=4, timeout=900)
        tlc.require_ok(res, "CsrReg_MC export (refused configurations)")
        traces = []
        for c in res.edges("CFG"):
            if not c.get("refused"):
                continue
            for how in ("arg", "annot", "subclass"):
                cfg = dict(c["cfg"], how=how)
                traces.append({"cfg": cfg, "steps": self.run_history(cfg, [])})
        fails = tracecheck.validate(self.module, self.prefix, traces, run, "construction of the configurations that must be refused")
        hwcheck.report_failures(run, self, traces, fails, "refusal")
        for t in traces:
            run.count(1)
            run.distinct(("refused", json.dumps(t["cfg"], sort_keys=True)))
        run.cov["refused_configurations_constructed"] = len(traces)


RULE = ("leg A: TLC explores CsrReg_MC (single field, dicts, lists, list of dicts inside a dict, zero-width "
        "fields; every assignment of r/w/rw/nc to the leaves; register access r/w/rw; every element write "
        "value and two complementary patterns per field) against the per-field statement of C11; leg B: every "
        "exported vector applied to real csr.Register objects built three ways (fields argument, class "
        "annotations, subclass with access) over probe field actions; leg C: random trees of depth<=3 with "
        "unsigned/signed/enum/zero-width shapes, walking-one/all-ones/random vectors. Every trace starts with "
        "the construction step (refused iff some field cannot be served). non-trivial = construction or a strobe.")


def main(tier):
    return hwcheck.check("C11", tier, Adapter(), RULE)


def replay(path):
    return hwcheck.replay(path, [Adapter()])
