"""Beyond the listed properties: amaranth_soc.periph against specs/Periph.tla (not in MANIFEST.json)."""
import json

from . import common, tlc, tracecheck
from .common import Run, rng

from amaranth_soc import event
from amaranth_soc.memory import MemoryMap
from amaranth_soc.periph import ConstantBool, ConstantInt, ConstantMap, PeripheralInfo
from .memmap import Reg


def rec_int(r):
    value = r.choice([0, 1, -1, 2, -2, 3, 7, 8, -8, -9, 255, 256, -256, 1 << 20, -(1 << 20), r.randint(-1000, 1000)])
    width = r.choice([-1, -1, 0, 1, 2, 3, 4, 8, 9, 16, 21, 22, 32])
    signed = r.choice(["none", "none", "true", "false", "bad"])
    kw = {}
    if width >= 0:
        kw["width"] = width
    if signed != "none":
        kw["signed"] = {"true": True, "false": False, "bad": 1}[signed]
    o = {"ok": 1, "width": 0, "signed": 0}
    try:
        c = ConstantInt(value, **kw)
        o.update(width=c.width, signed=int(c.signed))
        if c.value != value:
            o["ok"] = 2
    except (ValueError, TypeError):
        o["ok"] = 0
    return {"i": {"kind": "int", "value": value, "width": width, "signed": signed}, "o": o}


def rec_map(r):
    n = r.randint(0, 5)
    keys = r.sample(["A", "B", "DEPTH", "x", "y9", "Z_Z", "q"], n)
    entries, kw = [], {}
    for k in keys:
        tag = r.choice(["bool", "int", "cint", "cbool", "bool", "int"] + (["bad"] if r.random() < 0.15 else []))
        v = r.randint(0, 1) if tag in ("bool", "cbool") else r.randint(-50, 50)
        kw[k] = {"bool": bool(v), "int": v, "cint": ConstantInt(v), "cbool": ConstantBool(bool(v)), "bad": "str"}[tag]
        entries.append({"key": k, "tag": tag, "value": v if tag != "bad" else 0})
    o = {"ok": 1, "keys": [], "kinds": [], "values": [], "len": 0}
    try:
        m = ConstantMap(**kw)
        o["keys"] = list(m)
        o["kinds"] = ["bool" if isinstance(m[k], ConstantBool) else "int" for k in m]
        o["values"] = [int(m[k].value) for k in m]
        o["len"] = len(m)
    except (ValueError, TypeError):
        o["ok"] = 0
    return {"i": {"kind": "map", "entries": entries}, "o": o}


def rec_info(r):
    map_ok = int(r.random() < 0.85)
    irq = r.choice(["none", "source", "source", "bad"])
    cmap = r.choice(["none", "map", "bad"])
    mm = MemoryMap(addr_width=4, data_width=8) if map_ok else object()
    kw = {"memory_map": mm}
    if irq != "none":
        kw["irq"] = event.Source() if irq == "source" else "irq"
    if cmap != "none":
        kw["constant_map"] = ConstantMap(A=1) if cmap == "map" else {"A": 1}
    o = {"ok": 1, "frozen": 0, "irq": "", "cmap_len": 0}
    try:
        info = PeripheralInfo(**kw)
        try:
            o["irq"] = "source" if info.irq is kw.get("irq") else "other"
        except NotImplementedError:
            o["irq"] = "NotImplementedError"
        o["cmap_len"] = len(info.constant_map)
        if info.memory_map is not mm:
            o["ok"] = 2
    except (ValueError, TypeError):
        o["ok"] = 0
    if map_ok:
        try:
            mm.add_resource(Reg(), name=("r",), size=1)
        except ValueError:
            o["frozen"] = 1
    return {"i": {"kind": "info", "map_ok": map_ok, "irq": irq, "cmap": cmap}, "o": o}


def rec_busmap(r):
    from amaranth_soc import csr, wishbone
    is_map = int(r.random() < 0.9)
    if r.random() < 0.5:
        aw, dw = r.choice([1, 2, 5, 8]), r.choice([1, 8, 16, 32])
        maw = r.choice([aw, aw, aw, aw + 1, max(1, aw - 1)])
        mdw = r.choice([dw, dw, dw, 8, 2 * dw])
        bus = csr.Interface(addr_width=aw, data_width=dw)
        i = {"kind": "csr_map", "aw": aw, "dw": dw, "maw": maw, "mdw": mdw, "is_map": is_map}
    else:
        aw, dw = r.choice([0, 1, 4, 10]), r.choice([8, 16, 32, 64])
        gran = r.choice([g for g in (8, 16, 32, 64) if g <= dw])
        want = max(1, aw + (dw // gran).bit_length() - 1)
        maw = r.choice([want, want, want, aw if aw > 0 else 2, want + 1])
        mdw = r.choice([gran, gran, gran, dw, 8])
        bus = wishbone.Interface(addr_width=aw, data_width=dw, granularity=gran)
        i = {"kind": "wb_map", "aw": aw, "dw": dw, "gran": gran, "maw": maw, "mdw": mdw, "is_map": is_map}
    o = {"ok": 1, "has": 0}
    try:
        bus.memory_map = MemoryMap(addr_width=maw, data_width=mdw) if is_map else "map"
    except (ValueError, TypeError):
        o["ok"] = 0
    try:
        bus.memory_map
        o["has"] = 1
    except AttributeError:
        pass
    return {"i": i, "o": o}


def main(tier):
    run = Run("XP1", tier)
    run.cov["rule"] = ("random ConstantInt / ConstantMap / PeripheralInfo constructions incl. invalid ones; every "
                       "outcome validated by TLC against Periph.tla; non-trivial = all")
    res = tlc.run("Periph_MC", "SPECIFICATION Spec\nINVARIANT Representable\nINVARIANT Tight\nCHECK_DEADLOCK FALSE\n",
                  workers=2, timeout=300)
    tlc.require_ok(res, "Periph_MC")
    if not res.ok:
        raise common.MachineryError("Periph specification inconsistent: " + res.raw[-1500:])
    run.add_tlc(res, "Periph_MC: accepted ConstantInt is representable, default width is tight")
    r = rng("xp1")
    n = 6000 if tier == "thorough" else 1500
    steps = [r.choice([rec_int, rec_int, rec_map, rec_info, rec_busmap, rec_busmap])(r) for _ in range(n)]
    traces = [{"cfg": {"k": k}, "steps": steps[k:k + 50]} for k in range(0, n, 50)]
    fails = tracecheck.validate("Periph_Trace", "Pp", traces, run, "periph records")
    for fl in fails:
        st = traces[fl["trace"]]["steps"][fl["t"] - 1]
        run.report(f"periph:{fl['err']}", f"{fl['err']}: {json.dumps(st)[:300]}", {"record": st})
    for s in steps:
        run.count()
        run.distinct(json.dumps(s["i"], sort_keys=True))
    run.sample(steps[0])
    return run.finish()
