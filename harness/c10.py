"""C10: csr.wishbone.WishboneCSRBridge against specs/WbCsrBridge*.tla; and the bridge over a
real csr.Multiplexer, where the same run is validated twice: the Wishbone/CSR side against the
bridge specification and the CSR/element side against specs/CsrMux.tla (atomic multi-granule
register access = the bridge only ever produces conforming CSR transactions)."""
import json

from . import common, hwcheck, csrmux, tlc, tracecheck
from .common import bits, unbits, rng
from .hw import pmap

from amaranth import Module
from amaranth_soc import csr
from amaranth_soc.csr.wishbone import WishboneCSRBridge
from amaranth_soc.memory import MemoryMap

MC = """SPECIFICATION Spec
CONSTANTS Ratios = {ratios}
VIEW View
INVARIANT LatencyIsRatioPlusOne
INVARIANT AtAck
ACTION_CONSTRAINT Props
CHECK_DEADLOCK FALSE
"""
PAIRS = [(c, w) for c in (8, 16, 32, 64) for w in (8, 16, 32, 64) if w >= c]


def lane_bytes(v, n, cdw):
    m = (1 << cdw) - 1
    return [[((v >> (i * cdw)) & m) >> (8 * b) & 0xff for b in range(cdw // 8)] for i in range(n)]


def abiding_schedule(r, cfg, length, rdata=True):
    """Protocol-abiding Wishbone initiator: transfers held until acknowledged, back-to-back or
    spaced, cyc without stb, every select mask; CSR read data random each cycle (mock CSR side)."""
    n, cdw, waw = cfg["n"], cfg["cdw"], cfg["waw"]
    wdw = n * cdw
    state = {"cur": None, "gap": 0}

    def driver(obs):
        if driver.count >= length:
            return None
        driver.count += 1
        if state["cur"] is not None and obs is not None and obs.get("ack"):
            # the acknowledge was visible in the previous cycle: the transfer is over
            state["cur"] = None
            state["gap"] = r.choice([0, 0, 0, 1, 2, 3])
        if state["cur"] is None:
            if state["gap"] > 0:
                state["gap"] -= 1
                d = {"cyc": r.randint(0, 1), "stb": 0, "we": r.randint(0, 1), "adr": r.getrandbits(waw) if waw else 0,
                     "sel": r.getrandbits(n), "dat_w": r.getrandbits(wdw)}
                if r.random() < 0.3:
                    d["cyc"], d["stb"] = 0, 1
            else:
                sel = r.choice([r.getrandbits(n), (1 << n) - 1, 1 << r.randrange(n), 0])
                adr = cfg["hot"](r) if cfg.get("hot") else (r.getrandbits(waw) if waw else 0)
                state["cur"] = {"cyc": 1, "stb": 1, "we": r.randint(0, 1), "adr": adr,
                                "sel": sel, "dat_w": r.getrandbits(wdw)}
                d = dict(state["cur"])
        else:
            d = dict(state["cur"])
        if rdata:
            d["csr_r_data"] = r.getrandbits(cdw)
        if cfg.get("regvals"):
            for k, w in cfg["regvals"]:
                d[f"rd{k}"] = r.getrandbits(w) if w else 0
        return d
    driver.count = 0
    return driver


class Bridge:
    module, prefix = "WbCsrBridge_Trace", "Br"
    reactive = True

    def mc_runs(self, tier):
        ratios = "{1, 2, 4}"
        return [("WbCsrBridge_MC", MC.format(ratios=ratios),
                 f"WbCsrBridge_MC ratios {ratios}: latency, exactly-once, ascending granules, lanes, no stray strobes"),
                ("WbCsrBridgeMux_MC", "SPECIFICATION Spec\nCONSTANTS Ratios = {1, 2}\nVIEW View\n"
                 "INVARIANT MultiGranuleRegisterAtomic\nPROPERTY WriteEffectVisibleByAck\nCHECK_DEADLOCK FALSE\n",
                 "WbCsrBridgeMux_MC ratios {1,2}: bridge spec driving the multiplexer spec, register changing every "
                 "cycle: atomic multi-granule read, write effect visible by the acknowledge")]

    def vacuity(self, tier):
        return [("WbCsrBridge_MC", MC.format(ratios="{2}") + "INVARIANT NeverAcks\n", "NeverAcks")]

    def export(self, tier):
        return None

    def sizes(self, tier):
        return dict(random_traces=320, length=400) if tier == "thorough" else dict(random_traces=80, length=300)

    def build(self, cfg):
        n, cdw, caw = cfg["n"], cfg["cdw"], cfg["caw"]
        cb = csr.Interface(addr_width=caw, data_width=cdw, path=("csr",))
        cb.memory_map = MemoryMap(addr_width=caw, data_width=cdw)
        br = WishboneCSRBridge(cb, data_width=n * cdw)
        wb = br.wb_bus
        if wb.addr_width != cfg["waw"]:
            raise common.MachineryError("unexpected wishbone address width")
        ins = {s: getattr(wb, s) for s in ("cyc", "stb", "we", "adr", "sel", "dat_w")}
        ins["csr_r_data"] = cb.r_data
        outs = {"ack": wb.ack, "dat_r": wb.dat_r, "c_addr": cb.addr, "c_r_stb": cb.r_stb,
                "c_w_stb": cb.w_stb, "c_w_data": cb.w_data}
        return br, ins, outs, None, True

    def to_step(self, cfg, i, o):
        n, cdw = cfg["n"], cfg["cdw"]
        return {"i": {"cyc": i["cyc"], "stb": i["stb"], "we": i["we"], "adr": i["adr"],
                      "sel": bits(i["sel"], n), "dat_w": lane_bytes(i["dat_w"], n, cdw),
                      "csr_r_data": lane_bytes(i["csr_r_data"], 1, cdw)[0]},
                "o": {"ack": o["ack"], "dat_r": lane_bytes(o["dat_r"], n, cdw),
                      "csr": {"addr": o["c_addr"], "r_stb": o["c_r_stb"], "w_stb": o["c_w_stb"],
                              "w_data": lane_bytes(o["c_w_data"], 1, cdw)[0]}}}

    def random_cfg(self, r):
        cdw, wdw = r.choice(PAIRS)
        n = wdw // cdw
        lg = n.bit_length() - 1
        caw = r.choice([max(1, lg), lg + 1, lg + 2, lg + 5, 10])
        return {"n": n, "cdw": cdw, "caw": caw, "waw": max(0, caw - lg)}

    def random_schedule(self, r, cfg, length):
        return abiding_schedule(r, cfg, length)

    def nontrivial(self, s):
        return bool(s["i"]["cyc"] and s["i"]["stb"])

    # leg B: TLC-generated behaviours of the abiding environment, replayed on every width pair
    def extra(self, run, tier):
        if tier == "thorough":
            import re
            r4 = tlc.run("WbCsrBridgeMux_MC", "SPECIFICATION Spec\nCONSTANTS Ratios = {4}\n"
                         "INVARIANT MultiGranuleRegisterAtomic\nPROPERTY WriteEffectVisibleByAck\nCHECK_DEADLOCK FALSE\n",
                         simulate=300, depth=60, workers=8, timeout=1200, seed=common.seed() + 9)
            tlc.require_ok(r4, "WbCsrBridgeMux_MC -simulate")
            if r4.errors:
                raise common.MachineryError("bridge+multiplexer composition violates C10: " + r4.raw[-2000:])
            m = re.search(r"The number of states generated: (\d+)", r4.raw)
            r4.generated = int(m.group(1)) if m else 0
            run.add_tlc(r4, "WbCsrBridgeMux_MC ratio 4 by random walks (-simulate)")
        num, depth = (120, 40) if tier == "thorough" else (40, 30)
        res, behs = tlc.simulate_behaviours("WbCsrBridge_MC", MC.format(ratios="{1, 2, 4}"),
                                            num=num, depth=depth, wanted=("n", "lastin"),
                                            seed=common.seed() + 7)
        run.add_tlc(res, "WbCsrBridge_MC -simulate (behaviours for replay)")
        r = rng("bridge-beh")
        jobs = []
        for b in behs:
            if len(b) < 4:
                continue
            n = b[0]["n"]
            for (cdw, wdw) in PAIRS:
                if wdw // cdw != n:
                    continue
                cfg = {"n": n, "cdw": cdw, "caw": 3, "waw": 3 - (n.bit_length() - 1)}
                pat = [r.getrandbits(cdw) | 1, r.getrandbits(cdw) & ~1]     # two distinct lane values
                steps = []
                for s in b[1:]:
                    i = s["lastin"]
                    steps.append({"cyc": i["cyc"], "stb": i["stb"], "we": i["we"], "adr": i["adr"],
                                  "sel": unbits(i["sel"]),
                                  "dat_w": sum(pat[l[0]] << (k * cdw) for k, l in enumerate(i["dat_w"])),
                                  "csr_r_data": pat[i["csr_r_data"][0]]})
                jobs.append((cfg, steps))
        traces = [t for t in pmap(hwcheck._record_job, jobs) if "not_observable" not in t]
        if len(traces) != len(jobs):
            raise common.MachineryError("bridge could not be built for a legal width pair")
        fails = tracecheck.validate(self.module, self.prefix, traces, run,
                                    "TLC-generated behaviours replayed on the real bridge (leg B)")
        hwcheck.report_failures(run, self, traces, fails, "behaviour")
        for t in traces:
            run.count(len(t["steps"]))
            for s in t["steps"]:
                run.distinct((t["cfg"]["n"], t["cfg"]["cdw"], json.dumps(s["i"], sort_keys=True)), self.nontrivial(s))
        run.cov["behaviours_replayed"] = len(traces)
        run.sample({"tlc_behaviour_cfg": traces[0]["cfg"], "steps": traces[0]["steps"][:2]})


class BridgeOverMux:
    """Bridge + real csr.Multiplexer + mock registers; view selects which specification the
    recorded run is validated against."""

    reactive = True

    def __init__(self, view):
        self.view = view
        self.replay_id = f"c10.BridgeOverMux:{view}"
        if view == "bridge":
            self.module, self.prefix = "WbCsrBridge_Trace", "Br"
        else:
            self.module, self.prefix = "CsrMux_Trace", "Mux"
        self._mux = csrmux.Adapter()

    def mc_runs(self, tier):
        return []

    def export(self, tier):
        return None

    def sizes(self, tier):
        return dict(random_traces=160, length=400) if tier == "thorough" else dict(random_traces=48, length=300)

    def random_cfg(self, r):
        cdw, wdw = r.choice(PAIRS)
        n = wdw // cdw
        lg = n.bit_length() - 1
        caw = lg + r.choice([1, 2, 3])
        # registers aligned to the ratio so that a Wishbone word covers whole registers
        mm = MemoryMap(addr_width=caw, data_width=cdw, alignment=lg)
        regs = []
        for k in range(r.randint(1, 4)):
            size = r.choice([1, 2, n, n, 2 * n])
            width = r.choice([size * cdw, max(1, size * cdw - r.randint(0, cdw - 1)), r.randint(0, size * cdw)])
            acc = r.choice(["r", "w", "rw", "rw"])
            try:
                start, stop = mm.add_resource(csrmux.MockReg(width, acc), name=(f"r{k}",), size=size)
            except ValueError:
                continue
            regs.append({"start": start, "stop": stop, "width": width, "r": int(acc != "w"), "w": int(acc != "r")})
        return {"n": n, "cdw": cdw, "caw": caw, "waw": caw - lg, "dw": cdw, "aw": caw, "al": lg,
                "regs": regs, "overlaps": r.choice(csrmux.OVERLAPS), "seed": r.getrandbits(30)}

    def build(self, cfg):
        mux, mm, regs = csrmux.build_mux(cfg, cfg["overlaps"])
        br = WishboneCSRBridge(mux.bus, data_width=cfg["n"] * cfg["cdw"])
        m = Module()
        m.submodules.mux = mux
        m.submodules.br = br
        wb, cb = br.wb_bus, mux.bus
        ins = {s: getattr(wb, s) for s in ("cyc", "stb", "we", "adr", "sel", "dat_w")}
        outs = {"ack": wb.ack, "dat_r": wb.dat_r, "c_addr": cb.addr, "c_r_stb": cb.r_stb,
                "c_w_stb": cb.w_stb, "c_w_data": cb.w_data, "c_r_data": cb.r_data}
        for k, reg in enumerate(regs):
            e = reg.element
            if e.access.readable():
                ins[f"rd{k}"] = e.r_data
                outs[f"rs{k}"] = e.r_stb
            if e.access.writable():
                outs[f"ws{k}"] = e.w_stb
                outs[f"wd{k}"] = e.w_data
        return m, ins, outs, None, True

    def to_step(self, cfg, i, o):
        if self.view == "bridge":
            i2 = dict(i, csr_r_data=o["c_r_data"])
            return Bridge.to_step(self, cfg, i2, o)
        mi = {"addr": o["c_addr"], "r_stb": o["c_r_stb"], "w_stb": o["c_w_stb"], "w_data": o["c_w_data"]}
        mi.update({k: v for k, v in i.items() if k.startswith("rd")})
        mo = dict(o, r_data=o["c_r_data"])
        return self._mux.to_step(cfg, mi, mo)

    def random_schedule(self, r, cfg, length):
        c = dict(cfg)
        c["regvals"] = [(k, rc["width"]) for k, rc in enumerate(cfg["regs"]) if rc["r"]]
        words = sorted({rc["start"] // cfg["n"] for rc in cfg["regs"]} |
                       {(rc["stop"] - 1) // cfg["n"] for rc in cfg["regs"]})
        c["hot"] = (lambda rr: rr.choice(words) if words and rr.random() < 0.8 else rr.getrandbits(cfg["waw"]))
        return abiding_schedule(common.rng("bom", cfg["seed"]), c, length, rdata=False)   # same run for both views

    def nontrivial(self, s):
        i = s["i"]
        return bool(i.get("cyc") and i.get("stb")) or bool(i.get("r_stb") or i.get("w_stb"))


RULE = ("leg A: TLC explores WbCsrBridge_MC (ratios 1,2,4, every select mask, read/write, spaced and "
        "back-to-back transfers, cyc without stb, arbitrary CSR read data, abiding initiator) with history "
        "variables restating latency, exactly-once ascending accesses, address and lane rules; leg B: TLC "
        "-simulate behaviours replayed on the real bridge for every legal width pair; leg C: random "
        "geometries under an abiding random initiator, alone (mock CSR side) and over a real "
        "csr.Multiplexer with mock registers where one run is validated against both the bridge and the "
        "multiplexer specifications. non-trivial = cyc & stb (or a CSR strobe).")


def main(tier):
    return hwcheck.check("C10", tier, [Bridge(), BridgeOverMux("bridge"), BridgeOverMux("mux")], RULE)


def replay(path):
    return hwcheck.replay(path, [Bridge(), BridgeOverMux("bridge"), BridgeOverMux("mux")])
