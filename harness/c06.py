"""C06: csr.Decoder alone (specs/CsrDecoder*.tla) and trees of decoders over multiplexers
validated against the FLAT multiplexer specification (specs/CsrMux.tla) at the addresses the root
memory map reports."""
import json

from . import common, hwcheck, csrmux
from .common import bits, unbits

from amaranth import Module
from amaranth_soc import csr
from amaranth_soc.memory import MemoryMap

MC = """SPECIFICATION Spec
CONSTANTS MaxSubs = {n}
  Export = {export}
VIEW View
ACTION_CONSTRAINT Props
CHECK_DEADLOCK FALSE
"""


class Decoder:
    module, prefix = "CsrDecoder_Trace", "Dec"

    def mc_runs(self, tier):
        return [("CsrDecoder_MC", MC.format(n=3, export="FALSE"),
                 "CsrDecoder_MC <=3 windows, every order and input: one-hot routing, ownership = pattern")]

    def export(self, tier):
        return ("CsrDecoder_MC", MC.format(n=3 if tier == "thorough" else 2, export="TRUE"))

    def sizes(self, tier):
        return dict(random_traces=300, length=300, tour_salts=1) if tier == "thorough" else \
            dict(random_traces=80, length=200, tour_salts=1)

    def realize(self, key, cfg, r):
        cfg = dict(cfg)
        cfg["explicit"] = True
        cfg["names"] = [r.choice([None, f"w{k}"]) for k in range(len(cfg["subs"]))]
        return cfg

    def build(self, cfg):
        dec = csr.Decoder(addr_width=cfg["aw"], data_width=cfg["dw"], alignment=cfg.get("al", 0))
        subs = []
        for k, sc in enumerate(cfg["subs"]):
            sb = csr.Interface(addr_width=sc["aw"], data_width=cfg["dw"], path=(f"sub{k}",))
            sb.memory_map = MemoryMap(addr_width=sc["aw"], data_width=cfg["dw"])
            for a in sc.get("align_to") or []:
                dec.align_to(a)
            retried = k >= 1 and (k + cfg["aw"]) % 2 == 1
            if retried:
                # a first attempt that must be refused (it lands on the first window), then the real one: a refused
                # add() may leave nothing behind that makes the retry fail or the bus half-attached
                try:
                    dec.add(sb, addr=cfg["subs"][0]["start"])
                except ValueError:
                    pass
                else:
                    raise common.Violation("overlap-accepted", f"csr.Decoder.add() accepted a window on top of another: {cfg['subs']}")
            try:
                got = dec.add(sb, name=cfg["names"][k] if cfg.get("names") else None,
                              addr=sc["start"] if sc.get("explicit", cfg.get("explicit")) else None)
            except ValueError as e:
                if retried:
                    raise common.Violation("retry-refused", f"after a refused attempt, csr.Decoder.add() refuses the legal window {sc}: {e}")
                raise
            if got[0] != sc["start"]:
                raise common.MachineryError(f"window placement not reproducible: {sc} -> {got}")
            subs.append(sb)
            if (cfg["aw"] + len(cfg["subs"])) % 2:
                common.poke_map(dec.bus.memory_map, k + cfg["aw"])     # queries while the decoder is being assembled
        # buses whose add() is refused are not subordinates: their read data must not reach the decoder
        outsiders = []
        for k, sc in enumerate(cfg.get("rejected", [])):
            sb = csr.Interface(addr_width=sc["aw"], data_width=cfg["dw"], path=(f"out{k}",))
            sb.memory_map = MemoryMap(addr_width=sc["aw"], data_width=cfg["dw"])
            try:
                dec.add(sb, name=sc.get("name"), addr=sc.get("addr"))
            except ValueError:
                outsiders.append(sb)
            else:
                raise common.MachineryError("a subordinate recorded as refused was accepted on rebuild")
        ins = {"addr": dec.bus.addr, "r_stb": dec.bus.r_stb, "w_stb": dec.bus.w_stb, "w_data": dec.bus.w_data}
        outs = {"r_data": dec.bus.r_data}
        for k, sb in enumerate(subs):
            ins[f"rd{k}"] = sb.r_data
            for s in ("addr", "r_stb", "w_stb", "w_data"):
                outs[f"{s}{k}"] = getattr(sb, s)
        for k, sb in enumerate(outsiders):
            ins[f"xrd{k}"] = sb.r_data
            outs[f"xr{k}"] = sb.r_stb
            outs[f"xw{k}"] = sb.w_stb
        return dec, ins, outs, None, False

    def sim_input(self, cfg, i, r):
        d = {"addr": i["addr"], "r_stb": i["r_stb"], "w_stb": i["w_stb"], "w_data": unbits(i["w_data"])}
        for k in range(len(cfg["subs"])):
            d[f"rd{k}"] = unbits(i["sub_r_data"][k])
        return d

    def to_step(self, cfg, i, o):
        dw = cfg["dw"]
        n = len(cfg["subs"])
        return {"i": {"addr": i["addr"], "r_stb": i["r_stb"], "w_stb": i["w_stb"],
                      "w_data": bits(i["w_data"], dw),
                      "sub_r_data": [bits(i[f"rd{k}"], dw) for k in range(n)]},
                "o": {"r_data": bits(o["r_data"], dw),
                      "subs": [{"addr": o[f"addr{k}"], "r_stb": o[f"r_stb{k}"], "w_stb": o[f"w_stb{k}"],
                                "w_data": bits(o[f"w_data{k}"], dw)} for k in range(n)],
                      "stray": sum(o.get(f"xr{k}", 0) + o.get(f"xw{k}", 0) for k in range(len(cfg.get("rejected", []))))}}

    def random_cfg(self, r):
        """Windows placed by the REAL decoder (implicit / aligned-explicit / align_to / decoder
        alignment, any order); cfg records where Decoder.add said they went."""
        while True:
            aw = r.choice([3, 4, 6, 8, 12])
            dw = r.choice([1, 4, 8, 16, 32])
            al = r.choice([0, 0, 1, 2])
            dec = csr.Decoder(addr_width=aw, data_width=dw, alignment=al)
            subs, names, rejected = [], [], []
            pre = []
            many = aw >= 6 and r.random() < 0.35          # scale: 6-16 subordinates on one decoder
            for k in range(r.randint(6, 16) if many else r.randint(0, 5)):
                saw = r.randint(1, max(1, aw - 1)) if not many else r.randint(1, max(1, aw - 4))
                sb = csr.Interface(addr_width=saw, data_width=dw, path=(f"s{k}",))
                sb.memory_map = MemoryMap(addr_width=saw, data_width=dw)
                sc = {"aw": saw, "align_to": [], "explicit": False}
                if r.random() < 0.25:
                    pre.append(r.randint(0, aw - 1))
                    dec.align_to(pre[-1])
                addr = None
                if r.random() < 0.4:
                    addr = r.randrange(0, 1 << aw, 1 << max(saw, al))
                    sc["explicit"] = True
                name = r.choice([None, f"w{k}"])
                try:
                    start, stop, _ = dec.add(sb, name=name, addr=addr)
                except ValueError:
                    if not pre:      # (a pending align_to would not be replayed for a refused add)
                        rejected.append({"aw": saw, "addr": addr, "name": name, "after": len(subs)})
                    continue
                sc["start"] = start
                sc["align_to"], pre = pre, []
                subs.append(sc)
                names.append(name)
            rejected = [x for x in rejected if x["after"] == len(subs)][:2]
            return {"aw": aw, "dw": dw, "al": al, "subs": subs, "names": names, "rejected": rejected}

    def random_schedule(self, r, cfg, length):
        aw, dw, n = cfg["aw"], cfg["dw"], len(cfg["subs"])
        starts = [s["start"] for s in cfg["subs"]]
        for _ in range(length):
            if starts and r.random() < 0.7:
                k = r.randrange(n)
                addr = (starts[k] + r.getrandbits(cfg["subs"][k]["aw"] + 1) - r.randint(0, 1)) % (1 << aw)
            else:
                addr = r.getrandbits(aw)
            d = {"addr": addr, "r_stb": r.randint(0, 1), "w_stb": r.randint(0, 1), "w_data": r.getrandbits(dw)}
            busy = r.randrange(n) if n and r.random() < 0.6 else None
            for k in range(n):
                d[f"rd{k}"] = r.getrandbits(dw) if (k == busy or r.random() < 0.05) else 0
            for k in range(len(cfg.get("rejected", []))):
                d[f"xrd{k}"] = r.getrandbits(dw)
            yield d

    def nontrivial(self, s):
        return bool(s["i"]["r_stb"] or s["i"]["w_stb"])


class Tree:
    """Real trees of csr.Decoder over csr.Multiplexer leaves; oracle = flat CsrMux specification
    whose layout is the root memory map's all_resources()."""
    module, prefix = "CsrMux_Trace", "Mux"

    def mc_runs(self, tier):
        n = 4 if tier == "thorough" else 2
        return [("CsrTree_MC", f"SPECIFICATION Spec\nCONSTANTS NPairs = {n}\nVIEW View\n"
                 "ACTION_CONSTRAINT Props\nCHECK_DEADLOCK FALSE\n",
                 f"CsrTree_MC ({n} layout pairs): decoder over two multiplexers in lock-step with the flat multiplexer")]

    def export(self, tier):
        return None

    def sizes(self, tier):
        return dict(random_traces=240, length=400) if tier == "thorough" else dict(random_traces=64, length=300)

    def random_cfg(self, r):
        dw = r.choice([1, 2, 4, 8, 8, 16, 32])
        seed = r.getrandbits(32)
        tree = gen_tree(common.rng("tree", seed), dw, depth=0)
        root, regs = build_tree(tree, dw)
        flat = []
        ids = {id(reg): k for k, reg in enumerate(regs)}
        for info in root.memory_map.all_resources():
            k = ids[id(info.resource)]
            flat.append({"start": info.start, "stop": info.end, "width": regs[k].element.width,
                         "r": int(regs[k].element.access.readable()),
                         "w": int(regs[k].element.access.writable()), "id": k})
        return {"dw": dw, "aw": root.addr_width, "regs": flat, "tree": tree}

    def build(self, cfg):
        m = Module()
        root, regs = build_tree(cfg["tree"], cfg["dw"], m)
        # "at the addresses its memory map reports": the map's own two views must tell the same story, padding of
        # aligned windows included (the hardware is validated against the ranges below)
        mm = root.memory_map
        owner = {}
        for info in mm.all_resources():
            for a in range(info.start, info.end):
                owner[a] = info.resource
        for a in range(1 << mm.addr_width):
            if mm.decode_address(a) is not owner.get(a):
                raise common.Violation("decode-vs-ranges", f"decode_address({a}) disagrees with the ranges all_resources() reports "
                                       f"(decoder tree {json.dumps(cfg['tree'])[:200]})")
        ins = {"addr": root.addr, "r_stb": root.r_stb, "w_stb": root.w_stb, "w_data": root.w_data}
        outs = {"r_data": root.r_data}
        for k, rc in enumerate(cfg["regs"]):
            e = regs[rc["id"]].element
            if e.access.readable():
                ins[f"rd{k}"] = e.r_data
                outs[f"rs{k}"] = e.r_stb
            if e.access.writable():
                outs[f"ws{k}"] = e.w_stb
                outs[f"wd{k}"] = e.w_data
        return m, ins, outs, None, True

    to_step = csrmux.Adapter.to_step
    sim_input = csrmux.Adapter.sim_input

    def random_schedule(self, r, cfg, length):
        return csrmux.protocol_schedule(r, cfg, length, noise=r.choice([0.0, 0.1, 0.3]))

    def nontrivial(self, s):
        return bool(s["i"]["r_stb"] or s["i"]["w_stb"])


def gen_tree(r, dw, depth):
    """Tree description: leaf = multiplexer with registers; node = decoder with children."""
    if depth >= 2 or (depth > 0 and r.random() < 0.5):
        aw = r.randint(1, 4)
        regs = []
        for k in range(r.randint(0, 4)):
            size = r.choice([1, 1, 2, 3, 4])
            width = r.choice([size * dw, max(0, size * dw - r.randint(0, dw))])
            regs.append({"size": size, "width": width, "acc": r.choice(["r", "w", "rw", "rw"]),
                         "addr": r.choice([None, None, r.randrange(1 << aw)]),
                         "alignment": r.choice([None, None, 0, 1])})
        return {"kind": "mux", "aw": aw, "al": r.choice([0, 0, 1]), "regs": regs,
                "overlaps": r.choice(csrmux.OVERLAPS)}
    children = [gen_tree(r, dw, depth + 1) for _ in range(r.randint(1, 3))]
    need = max(c["aw"] for c in children) + r.randint(1, 2)
    for c in children:
        c["name"] = r.choice([None, "n"])
        c["explicit"] = r.random() < 0.3
        c["align_to"] = r.choice([None, None, r.randint(0, need - 1)])
    # decoder alignments above a child's address width pad its window: the padding holds nothing
    al = r.choice([0, 0, 1, 2, 3])
    return {"kind": "dec", "aw": max(need, al + 2), "al": al, "children": children}


_uid = [0]


def build_tree(t, dw, m=None):
    """-> (bus interface of the subtree root, list of mock registers in creation order).
    Placement failures (overlap, out of bounds, name clash) simply skip the item: the flat
    layout is whatever the real root memory map reports afterwards."""
    regs = []

    def rec(t, path):
        if t["kind"] == "mux":
            mm = MemoryMap(addr_width=t["aw"], data_width=dw, alignment=t["al"])
            early = csrmux.early_point(len(t["regs"]), t["aw"], [(rc["size"], rc["width"]) for rc in t["regs"]])
            mux = None
            for k, rc in enumerate(t["regs"]):
                if k == early:
                    mux = csr.Multiplexer(mm, shadow_overlaps=t["overlaps"])      # registers added later are legal
                reg = csrmux.MockReg(rc["width"], rc["acc"])
                kw = {}
                if rc["addr"] is not None:
                    kw["addr"] = rc["addr"]
                if rc["alignment"] is not None:
                    kw["alignment"] = rc["alignment"]
                try:
                    mm.add_resource(reg, name=(f"r{k}",), size=rc["size"], **kw)
                except ValueError:
                    continue
                regs.append(reg)
            if mux is None:
                mux = csr.Multiplexer(mm, shadow_overlaps=t["overlaps"])
            if m is not None:
                m.submodules["_".join(path) + "_mux"] = mux
            return mux.bus
        dec = csr.Decoder(addr_width=t["aw"], data_width=dw, alignment=t["al"])
        for k, c in enumerate(t["children"]):
            bus = rec(c, path + [str(k)])
            if c.get("align_to") is not None:
                dec.align_to(c["align_to"])
            addr = None
            if c.get("explicit"):
                addr = (k * (1 << c["aw"])) % (1 << t["aw"])
            name = None if c.get("name") is None else f"{c['name']}{k}"
            try:
                dec.add(bus, name=name, addr=addr)
            except ValueError:
                # could not be placed: the subtree stays unconnected (its bus idles at zero)
                continue
            common.poke_map(dec.bus.memory_map, k + 1)
        if m is not None:
            m.submodules["_".join(path) + "_dec"] = dec
        return dec.bus

    root = rec(t, ["t"])
    return root, regs


RULE = ("decoder alone: TLC explores CsrDecoder_MC (every set/order of <=3 aligned windows, every input "
        "vector) and every exported vector is applied to the real csr.Decoder with mock subordinate buses; "
        "random decoders (implicit/explicit/align_to/alignment placement, named/anonymous). Trees: "
        "CsrTree_MC runs decoder+multiplexers in lock-step with the flat multiplexer; random real trees "
        "(depth<=3, decoders over multiplexers over mock registers, all sharing limits) are driven at the "
        "root and validated by TLC against the FLAT CsrMux specification laid out as the root memory map's "
        "all_resources() reports. non-trivial = a strobe is asserted.")


def main(tier):
    return hwcheck.check("C06", tier, [Decoder(), Tree()], RULE)


def replay(path):
    return hwcheck.replay(path, [Decoder(), Tree()])
