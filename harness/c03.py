from . import memmap


def main(tier):
    return memmap.main("C03", tier)
