"""C04 / C05: csr.Multiplexer against specs/CsrMux*.tla."""
import json

import hashlib
from . import common, tlc, tracecheck, hwcheck
from .common import bits, unbits, rng
from .hw import pmap

from amaranth import Module
from amaranth.hdl import Fragment
from amaranth.lib import wiring
from amaranth.lib.wiring import Out
from amaranth_soc import csr
from amaranth_soc.memory import MemoryMap

MC = """SPECIFICATION Spec
CONSTANTS Mode = "{mode}"
  Family = "{family}"
INVARIANT ConformingRunsHaveNoUnknown
ACTION_CONSTRAINT Props
CHECK_DEADLOCK FALSE
"""
OVERLAPS = [None, 0, 1, 2]


class MockReg(wiring.Component):
    def __init__(self, width, access):
        super().__init__({"element": Out(csr.Element.Signature(width, access))})

    def elaborate(self, platform):
        return Module()


def access_of(reg):
    return {(1, 0): "r", (0, 1): "w", (1, 1): "rw"}[(reg["r"], reg["w"])]


def build_map(cfg, after=None):
    """Real MemoryMap holding mock registers at the cfg's ranges.  `after(k, mm)` is called once k registers
    have been added (k = 0..n), e.g. to construct the multiplexer BEFORE the remaining registers exist."""
    mm = MemoryMap(addr_width=cfg["aw"], data_width=cfg["dw"], alignment=cfg.get("al", 0))
    regs = []
    if after:
        after(0, mm)
    for k, rc in enumerate(cfg["regs"]):
        reg = MockReg(rc["width"], access_of(rc))
        got = mm.add_resource(reg, name=(f"r{k}",), addr=rc["start"], size=rc["stop"] - rc["start"])
        if got != (rc["start"], rc["stop"]):
            raise common.MachineryError(f"layout not reproducible on MemoryMap: {rc} -> {got}")
        regs.append(reg)
        if after:
            after(k + 1, mm)
    return mm, regs


def naturally_aligned(cfg):
    for r in cfg["regs"]:
        size = r["stop"] - r["start"]
        if r["start"] % (1 << max(0, (size - 1).bit_length())) != 0:
            return False
    return True


def early_point(n, *salt):
    """After how many of n registers the multiplexer is constructed: all of them for every other layout,
    otherwise somewhere earlier (csr.Multiplexer does not freeze its map: registers added between its
    construction and its elaboration are legal and must be decoded like the others)."""
    h = int.from_bytes(hashlib.blake2b(repr(salt).encode(), digest_size=4).digest(), "big")
    return n if h % 2 == 0 else (h // 2) % (n + 1)


def build_mux(cfg, overlaps):
    """-> (mux, mm, regs); the multiplexer is constructed at early_point of the layout"""
    box = []
    at = early_point(len(cfg["regs"]), cfg["aw"], cfg["dw"], [(r["start"], r["stop"], r["width"]) for r in cfg["regs"]])

    def after(k, mm):
        if k == at:
            box.append(csr.Multiplexer(mm, shadow_overlaps=overlaps))
    mm, regs = build_map(cfg, after)
    return box[0], mm, regs


class Adapter:
    module, prefix = "CsrMux_Trace", "Mux"
    mc_workers = 16

    def mc_runs(self, tier):
        runs = [("CsrMux_MC", MC.format(mode="conf", family="curated") + "VIEW View\n",
                 "CsrMux_MC conforming environment, curated layouts: NoUnknown, snapshot, write data"),
                ("CsrMux_MC", MC.format(mode="all", family="curated") + "VIEW View\n",
                 "CsrMux_MC every input every cycle, curated layouts: strobe exactness, zero when idle")]
        return runs

    def vacuity(self, tier):
        return [("CsrMux_MC", MC.format(mode="conf", family="curated") + "VIEW View\nPROPERTY NeverMultiChunkRead\n",
                 "NeverMultiChunkRead"),
                ("CsrMux_MC", MC.format(mode="all", family="curated") + "VIEW View\nINVARIANT NeverWStb\n",
                 "NeverWStb")]

    def export(self, tier):
        return None

    def sizes(self, tier):
        return dict(random_traces=480, length=400) if tier == "thorough" else \
            dict(random_traces=112, length=300)

    def build(self, cfg):
        dut, mm, regs = build_mux(cfg, cfg.get("overlaps"))
        if cfg.get("overlaps") is not None and naturally_aligned(cfg):
            # with every register aligned to its own (power-of-two) size a large enough shadow has no aliasing at
            # all, so EVERY sharing limit is satisfiable: a refusal here is the limit changing behaviour (C05)
            twin, _, _ = build_mux(cfg, cfg.get("overlaps"))
            try:
                Fragment.get(twin, None)
            except ValueError as e:
                raise common.Violation("satisfiable-limit-refused",
                                       f"shadow_overlaps={cfg['overlaps']} refused a naturally aligned layout "
                                       f"{[(r['start'], r['stop']) for r in cfg['regs']]}: {e}")
        ins = {"addr": dut.bus.addr, "r_stb": dut.bus.r_stb, "w_stb": dut.bus.w_stb,
               "w_data": dut.bus.w_data}
        outs = {"r_data": dut.bus.r_data}
        for k, reg in enumerate(regs):
            e = reg.element
            if e.access.readable():
                ins[f"rd{k}"] = e.r_data
                outs[f"rs{k}"] = e.r_stb
            if e.access.writable():
                outs[f"ws{k}"] = e.w_stb
                outs[f"wd{k}"] = e.w_data
        return dut, ins, outs, None, True

    def sim_input(self, cfg, i, r):
        d = {"addr": i["addr"], "r_stb": i["r_stb"], "w_stb": i["w_stb"], "w_data": unbits(i["w_data"])}
        for k, rc in enumerate(cfg["regs"]):
            if rc["r"]:
                d[f"rd{k}"] = unbits(i["rdata"][k])
        return d

    def to_step(self, cfg, i, o):
        dw = cfg["dw"]
        return {"i": {"addr": i["addr"], "r_stb": i["r_stb"], "w_stb": i["w_stb"],
                      "w_data": bits(i["w_data"], dw),
                      "rdata": [bits(i.get(f"rd{k}", 0), rc["width"]) for k, rc in enumerate(cfg["regs"])]},
                "o": {"r_data": bits(o["r_data"], dw),
                      "regs": [{"r_stb": o.get(f"rs{k}", 0), "w_stb": o.get(f"ws{k}", 0),
                                "w_data": bits(o.get(f"wd{k}", 0), rc["width"])}
                               for k, rc in enumerate(cfg["regs"])]}}

    # ---- leg C generators -----------------------------------------------------------------
    def random_cfg(self, r):
        if r.random() < 0.2:
            return self.wide_cfg(r)
        dw = r.choice([1, 2, 3, 4, 8, 8, 16, 32])
        aw = r.choice([3, 4, 5, 6])
        al = r.choice([0, 0, 0, 1, 2])
        mm = MemoryMap(addr_width=aw, data_width=dw, alignment=al)
        regs = []
        for k in range(r.randint(1, 6)):
            size = r.choice([0, 1, 1, 2, 2, 3, 4, 5])
            chunks = max(size, 1)
            width = r.choice([chunks * dw, max(0, chunks * dw - r.randint(0, dw)), r.randint(0, chunks * dw)])
            if size == 0:
                width = 0
            acc = r.choice(["r", "w", "rw", "rw"])
            kw = {}
            if r.random() < 0.3:
                kw["alignment"] = r.randint(0, 2)
            if r.random() < 0.3:
                kw["addr"] = r.randrange(0, 1 << aw, 1 << al)
            try:
                start, stop = mm.add_resource(MockReg(width, acc), name=(f"r{k}",), size=size, **kw)
            except ValueError:
                continue
            regs.append({"start": start, "stop": stop, "width": width,
                         "r": int(acc != "w"), "w": int(acc != "r")})
        regs.sort(key=lambda x: x["start"])
        return {"dw": dw, "aw": aw, "al": 0, "regs": regs, "overlaps": r.choice(OVERLAPS)}

    def wide_cfg(self, r):
        """Scale: 9-14 address bits, registers above address 0x100, naturally aligned pairs that alias in their low
        address bits although they are far apart, up to 12 registers."""
        dw = r.choice([8, 8, 16, 32])
        aw = r.choice([9, 10, 12, 14])
        regs, used = [], []

        def place(start, size, width=None, acc=None):
            if start < 0 or start + size > (1 << aw) or any(start < e and s < start + size for s, e in used):
                return
            acc = acc or r.choice(["r", "w", "rw", "rw"])
            used.append((start, start + size))
            regs.append({"start": start, "stop": start + size, "width": size * dw if width is None else width,
                         "r": int(acc != "w"), "w": int(acc != "r")})
        size = r.choice([1, 2, 2, 4])
        low = r.randrange(0, 64, size)
        place(low, size)
        place(low + (1 << r.randint(6, aw - 1)), size)                 # same low bits, far apart
        for _ in range(r.randint(1, 10)):
            size = r.choice([1, 1, 2, 3, 4])
            place(r.randrange(0x100, 1 << aw), size, width=max(1, size * dw - r.randint(0, dw - 1)))
        regs.sort(key=lambda x: x["start"])
        return {"dw": dw, "aw": aw, "al": 0, "regs": regs, "overlaps": r.choice(OVERLAPS)}

    def random_schedule(self, r, cfg, length):
        return list(protocol_schedule(r, cfg, length, noise=r.choice([0.0, 0.0, 0.1, 0.3])))

    def nontrivial(self, s):
        return bool(s["i"]["r_stb"] or s["i"]["w_stb"])

    # ---- leg B: TLC-generated behaviours replayed on the real multiplexer ---------------------
    def extra(self, run, tier):
        num, depth = (150, 60) if tier == "thorough" else (40, 40)
        jobs = []
        combos = [("conf", "gen"), ("all", "gen")] + ([("conf", "curated")] if tier == "thorough" else [])
        for mode, family in combos:
            res, behs = tlc.simulate_behaviours(
                "CsrMux_MC", MC.format(mode=mode, family=family), num=num, depth=depth,
                wanted=("key", "lastin"), seed=common.seed() + 1)
            run.add_tlc(res, f"CsrMux_MC -simulate mode={mode} family={family} (behaviours for replay)")
            for b in behs:
                if len(b) < 3:
                    continue
                key = b[0]["key"]
                steps = [s["lastin"] for s in b[1:]]
                for ov in OVERLAPS:
                    cfg = {"dw": key["dw"], "aw": 3, "regs": key["regs"], "overlaps": ov}
                    jobs.append((cfg, [self.sim_input(cfg, i, None) for i in steps]))
        traces = pmap(hwcheck._record_job, jobs)
        obs = []
        for t in traces:
            if "violation" in t:
                run.report(t["violation"][0], t["violation"][1], {"cfg": t["cfg"]})
            elif "not_observable" in t:
                run.not_observable({"cfg": t["cfg"], "why": t["not_observable"]})
            else:
                obs.append(t)
        fails = tracecheck.validate(self.module, self.prefix, obs, run,
                                    "TLC-generated behaviours replayed on the real multiplexer (leg B)")
        hwcheck.report_failures(run, self, obs, fails, "behaviour")
        for t in obs:
            run.count(len(t["steps"]))
            ck = json.dumps(t["cfg"], sort_keys=True)
            for s in t["steps"]:
                run.distinct((ck, json.dumps(s["i"], sort_keys=True)), self.nontrivial(s))
        run.cov["behaviours_replayed"] = len(obs)
        if obs:
            run.sample({"tlc_behaviour_cfg": obs[0]["cfg"], "steps": obs[0]["steps"][:3]})
        differential(run, self, tier)


def protocol_schedule(r, cfg, length, noise=0.0):
    """Protocol-aware random initiator: register transactions (ascending chunks, sometimes
    abandoned), idle cycles, simultaneous read+write, unmapped addresses; register values change
    every cycle; `noise` = probability of a completely arbitrary cycle."""
    dw, aw = cfg["dw"], cfg["aw"]
    regs = cfg["regs"]
    plan = []
    n = 0

    def rdata():
        return {f"rd{k}": r.getrandbits(rc["width"]) if rc["width"] else 0
                for k, rc in enumerate(regs) if rc["r"]}
    mapped = set()
    for rc in regs:
        mapped.update(range(rc["start"], rc["stop"]))
    unmapped = [a for a in range(1 << aw) if a not in mapped]
    while n < length:
        x = r.random()
        if x < noise:
            step = {"addr": r.getrandbits(aw), "r_stb": r.randint(0, 1), "w_stb": r.randint(0, 1),
                    "w_data": r.getrandbits(dw)}
        elif x < noise + 0.15 or not regs:
            step = {"addr": r.getrandbits(aw), "r_stb": 0, "w_stb": 0, "w_data": r.getrandbits(dw)}
        elif x < noise + 0.22 and unmapped:
            step = {"addr": r.choice(unmapped), "r_stb": r.randint(0, 1), "w_stb": r.randint(0, 1),
                    "w_data": r.getrandbits(dw)}
        else:
            rc = r.choice(regs)
            size = rc["stop"] - rc["start"]
            kind = r.choice(["r", "w", "rw"])
            upto = size if r.random() < 0.75 else r.randint(1, size)
            for c in range(upto):
                if kind == "r" and r.random() < 0.2 and c > 0:
                    continue        # reads may skip chunks (still ascending)
                yield_step = {"addr": rc["start"] + c, "r_stb": int(kind in ("r", "rw")),
                              "w_stb": int(kind in ("w", "rw")), "w_data": r.getrandbits(dw)}
                yield_step.update(rdata())
                plan.append(yield_step)
                n += 1
                if r.random() < 0.15:
                    idle = {"addr": r.getrandbits(aw), "r_stb": 0, "w_stb": 0, "w_data": r.getrandbits(dw)}
                    idle.update(rdata())
                    plan.append(idle)
                    n += 1
            continue
        step.update(rdata())
        plan.append(step)
        n += 1
    return plan[:length]


def _diff_job(job):
    cfg, steps = job
    out = []
    for ov in OVERLAPS:
        c = dict(cfg, overlaps=ov)
        out.append(hwcheck._record_job((c, steps)))
    return out


def differential(run, ad, tier):
    """C05's last sentence: the sharing limit never changes observable behaviour.  The same
    conforming schedule is fed to instances that differ only in the limit; everything the
    specification constrains (no U) must coincide - which trace validation already implies, so
    here the raw observations of conforming cycles are compared directly as an extra oracle."""
    r = rng("mux-diff")
    jobs = []
    for _ in range(60 if tier == "thorough" else 16):
        cfg = ad.random_cfg(r)
        jobs.append((cfg, protocol_schedule(r, cfg, 200, noise=0.0)))
    n = 0
    for (cfg, steps), group in zip(jobs, pmap(_diff_job, jobs)):
        good = [t for t in group if "not_observable" not in t]
        for t in group:
            if "violation" in t:
                run.report(t["violation"][0], t["violation"][1], {"cfg": t["cfg"]})
            elif "not_observable" in t:
                run.not_observable({"cfg": t["cfg"], "why": t["not_observable"]})
        for t in good[1:]:
            for k, (a, b) in enumerate(zip(good[0]["steps"], t["steps"])):
                if a["o"]["r_data"] != b["o"]["r_data"] or \
                        [(x["r_stb"], x["w_stb"]) for x in a["o"]["regs"]] != \
                        [(x["r_stb"], x["w_stb"]) for x in b["o"]["regs"]] or \
                        any(x["w_stb"] and x["w_data"] != y["w_data"]
                            for x, y in zip(a["o"]["regs"], b["o"]["regs"])):
                    run.report(f"mux-sharing-limit:{json.dumps(cfg, sort_keys=True)[:200]}",
                               f"shadow_overlaps={t['cfg']['overlaps']} behaves differently from "
                               f"{good[0]['cfg']['overlaps']} at cycle {k + 1} of a conforming schedule",
                               {"cfg": cfg, "step": k + 1, "a": a, "b": b})
                    break
            n += 1
    run.cov["differential_pairs"] = n


RULE = ("leg A: TLC explores CsrMux_MC on curated layouts (unaligned, padded, zero-width, r/w/rw) with "
        "every input vector (strobe exactness, zero when idle) and with a protocol-conforming environment "
        "(no unknown bit, snapshot = value at first chunk, write data = this transaction's chunks, against "
        "independent history variables); leg B: TLC -simulate behaviours over all <=2-register layouts in "
        "8 addresses are replayed on the real csr.Multiplexer for every shadow_overlaps in {None,0,1,2} and "
        "validated by TLC; leg C: random layouts built through MemoryMap (dw 1-32, alignment, explicit "
        "addresses, up to 6 registers, all limits) under a protocol-aware initiator with noise, register "
        "values changing every cycle; plus a differential run across sharing limits. non-trivial = a strobe "
        "is asserted.")


def main(prop, tier):
    return hwcheck.check(prop, tier, Adapter(), RULE)


def replay(path):
    return hwcheck.replay(path, [Adapter()])
