"""Generic cycle-by-cycle driver for an Amaranth design on the Python simulator.

One *cycle* = apply the inputs, let combinational logic settle, observe every output, then
take one rising clock edge.  That is exactly the step of the TLA+ specifications
(`XOut(cfg, st, in)` is what is observed, `XStep(cfg, st, in)` is the state after the edge).
"""
import multiprocessing
import os
import warnings

from . import common  # noqa: F401  (puts the repo under test first on sys.path)

from amaranth import Signal, Value
from amaranth.hdl import Fragment
from amaranth.sim import Simulator

warnings.filterwarnings("ignore", category=DeprecationWarning)
from amaranth._unused import MustUse
MustUse._MustUse__silence = True     # the checks build thousands of throw-away components


def raw(sig):
    """Plain Signal/Value behind a possibly shape-castable view (enum views, etc.)."""
    return sig if isinstance(sig, Value) else Value.cast(sig)


def simulate(design, ins, outs, driver, *, clocked=True, max_cycles=10_000_000, hook=None):
    """Drive `design`.  ins/outs: dict name -> signal.  driver(prev_obs) -> dict name -> int,
    or None to stop.  Returns a list of (inputs, observations) per cycle.  `hook(ctx)` may add
    extra observations (e.g. memory contents) to the obs dict of the cycle."""
    ins = {k: raw(s) for k, s in ins.items()}
    outs = {k: raw(s) for k, s in outs.items()}
    sim = Simulator(design)
    if clocked:
        try:
            sim.add_clock(1e-6)
        except (NameError, ValueError):
            clocked = False
    log = []

    async def tb(ctx):
        obs = None
        n = 0
        while n < max_cycles:
            i = driver(obs)
            if i is None:
                break
            for k, v in i.items():
                ctx.set(ins[k], v)
            obs = {k: ctx.get(s) for k, s in outs.items()}
            if hook is not None:
                obs.update(hook(ctx))
            log.append((i, obs))
            n += 1
            if clocked:
                await ctx.tick()
            else:
                await ctx.delay(1e-6)

    sim.add_testbench(tb)
    sim.run()
    return log


def run_sequence(design, ins, outs, seq, **kw):
    it = iter(seq)
    return simulate(design, ins, outs, lambda obs: next(it, None), **kw)


def pmap(fn, items, procs=None):
    """Parallel map over independent configurations (fork; deterministic order)."""
    items = list(items)
    if procs is None:
        procs = min(len(items), os.cpu_count() or 4)
    if procs <= 1 or len(items) <= 1:
        return [fn(x) for x in items]
    ctx = multiprocessing.get_context("fork")
    with ctx.Pool(procs) as pool:
        return pool.map(fn, items, chunksize=max(1, len(items) // (procs * 4)))


def tour(edges, s0, rng, max_len=None):
    """Edge-covering walks.  edges: iterable of (s, i, t) with hashable s/t and any i.
    Returns (walks, remaining): each walk is a list of (s, i, t) starting from s0; together they
    cover every edge reachable from s0 (greedy: an untaken edge here, else the shortest path to a
    state that has one, else - absorbing states such as "frozen" - restart from s0 on a fresh
    object)."""
    out = {}
    for (s, i, t) in edges:
        out.setdefault(s, []).append((i, t))
    for s in out:
        rng.shuffle(out[s])
    untaken = {s: list(range(len(v))) for s, v in out.items()}
    remaining = sum(len(v) for v in untaken.values())
    walks = []
    walk = []
    cur = s0
    total = 0
    while remaining and (max_len is None or total < max_len):
        if untaken.get(cur):
            k = untaken[cur].pop()
            i, t = out[cur][k]
            walk.append((cur, i, t))
            total += 1
            remaining -= 1
            cur = t
            continue
        prev = {cur: None}
        queue = [cur]
        goal = None
        while queue and goal is None:
            nxt = []
            for s in queue:
                for (i, t) in out.get(s, ()):
                    if t not in prev:
                        prev[t] = (s, i)
                        if untaken.get(t):
                            goal = t
                            break
                        nxt.append(t)
                if goal is not None:
                    break
            queue = nxt
        if goal is None:
            if cur == s0 and not walk:
                break           # the rest is unreachable from the initial state
            walks.append(walk)
            walk = []
            cur = s0
            continue
        path = []
        t = goal
        while prev[t] is not None:
            s, i = prev[t]
            path.append((s, i, t))
            t = s
        for step in reversed(path):
            walk.append(step)
            total += 1
        cur = goal
    if walk:
        walks.append(walk)
    return walks, remaining
