from . import csrmux


def main(tier):
    return csrmux.main("C05", tier)


def replay(path):
    return csrmux.replay(path)
