from . import csrmux


def main(tier):
    return csrmux.main("C05", tier)
