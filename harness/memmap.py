"""C02 / C03 / C18: amaranth_soc.memory.MemoryMap against specs/MemoryMap*.tla.

A history is a list of call records; the executor applies them to real objects and logs, after
every call, the outcome and everything observable (resources(), windows(), a neutral cursor
probe), and on "lookup" calls all_resources(), decode_address() of EVERY address and
find_resource() of every resource ever created plus two that were never added."""
import json

from . import common, hwcheck
from .common import rng

from amaranth_soc import csr
from amaranth_soc.csr import action
from amaranth_soc.memory import MemoryMap
from amaranth_soc.periph import PeripheralInfo


def tag(name):
    if name is None:
        return []
    if isinstance(name, (str, int)):
        name = (name,)
    return [("s:" + p) if isinstance(p, str) else ("i:" + str(p)) for p in name]


def untag(parts):
    return tuple(p[2:] if p.startswith("s:") else int(p[2:]) for p in parts)


class Reg(csr.Register, access="rw"):
    def __init__(self):
        super().__init__({"f": csr.Field(action.RW, 1)})


class Executor:
    def __init__(self):
        self.maps = []
        self.res = {}        # rid -> object
        self.rid = {}        # id(object) -> rid
        self.mid = {}        # id(map) -> index (1-based)

    def resource(self, rid):
        if rid not in self.res:
            o = Reg()
            self.res[rid] = o
            self.rid[id(o)] = rid
        return self.res[rid]

    def views(self):
        out = []
        for m in self.maps:
            out.append({
                "resources": [[self.rid[id(r)], tag(n), s, e] for r, n, (s, e) in m.resources()],
                "windows": [[self.mid[id(w)], tag(n), s, e, q] for w, n, (s, e, q) in m.windows()],
                "cursor": m.align_to(0)})
        return out

    def info(self, ri):
        return [self.rid[id(ri.resource)], [tag(n) for n in ri.path], ri.start, ri.end, ri.width]

    def lookup(self):
        o = {"all": [], "decode": [], "find": []}
        for m in self.maps:
            o["all"].append([self.info(ri) for ri in m.all_resources()])
            dec = []
            for a in range(1 << m.addr_width):
                r = m.decode_address(a)
                dec.append(0 if r is None else self.rid[id(r)])
            o["decode"].append(dec)
            fs = []
            for rid in sorted(self.res) + [9001, 9002]:
                obj = self.res.get(rid) or Reg()
                try:
                    ri = m.find_resource(obj)
                    fs.append({"id": rid, "found": 1, "info": self.info(ri)})
                except KeyError:
                    fs.append({"id": rid, "found": 0, "info": []})
            o["find"].append(fs)
        return o

    def apply(self, c):
        """-> (call record completed with the outcome, observation)"""
        c = dict(c)
        call = c["call"]
        if call == "new":
            m = MemoryMap(addr_width=c["aw"], data_width=c["dw"], alignment=c["al"])
            self.maps.append(m)
            self.mid[id(m)] = len(self.maps)
            return c, {"views": self.views()}
        if call == "lookup":
            return c, self.lookup()
        m = self.maps[c["m"] - 1]
        c.update(ok=1, start=0, stop=0, ratio=0, ret=0)
        try:
            if call == "add_resource":
                bad = c["bad"]
                obj = object() if bad == "not_component" else self.resource(c["res"])
                name = () if bad == "name_empty" else untag(c["name"])
                size = {"size_neg": -1, "size_str": "1"}.get(bad, c["size"])
                kw = {}
                if c["addr"] >= 0 or bad == "addr_neg":
                    kw["addr"] = -2 if bad == "addr_neg" else c["addr"]
                if c["alignment"] >= 0 or bad == "al_neg":
                    kw["alignment"] = -1 if bad == "al_neg" else c["alignment"]
                c["start"], c["stop"] = m.add_resource(obj, name=name, size=size, **kw)
            elif call == "add_window":
                w = object() if c["bad"] == "not_map" else self.maps[c["w"] - 1]
                kw = {}
                if c["name"]:
                    kw["name"] = untag(c["name"])
                if c["addr"] >= 0:
                    kw["addr"] = c["addr"]
                if c["sparse"] != "none":
                    kw["sparse"] = c["sparse"] == "true"
                c["start"], c["stop"], c["ratio"] = m.add_window(w, **kw)
            elif call == "align_to":
                c["ret"] = m.align_to(c["al"])
            elif call == "freeze":
                m.freeze()
            elif call == "bridge":
                csr.Bridge(m)
            elif call == "periph":
                PeripheralInfo(memory_map=m)
            else:
                raise common.MachineryError(f"unknown call {call}")
        except (ValueError, TypeError) as e:
            c["ok"] = 0
            c["exc"] = type(e).__name__
        return c, {"views": self.views()}


def run_history(calls):
    ex = Executor()
    steps = []
    for c in calls:
        i, o = ex.apply(c)
        steps.append({"i": i, "o": o})
    return steps


# ---------------------------------------------------------------------------------------------
# random histories (leg C): the generator looks at the executor only to know which objects exist
# and which calls succeeded (so that one resource object never ends up in two maps of a tree)
# ---------------------------------------------------------------------------------------------
PARTS = ["a", "b", "c", "d", "0", "ctrl", "x", "y", 0, 1, 2, 3]


def random_name(r):
    return tuple(r.choice(PARTS) for _ in range(r.choice([1, 1, 2, 2, 3])))


def random_history(r, length):
    ex = Executor()
    steps = []
    placed = set()       # rids successfully added somewhere
    used_win = set()     # map indices already used as a window
    frozen = set()       # map indices known to be frozen
    nres = [0]
    base_dw = r.choice([8, 16, 32])

    def do(c):
        i, o = ex.apply(c)
        steps.append({"i": i, "o": o})
        return i

    def new_map(root=False):
        if root:
            aw, dw = r.choice([3, 4, 5, 6]), base_dw
        else:
            aw = r.choice([1, 1, 2, 2, 3, 4])
            dw = r.choice([base_dw, base_dw, base_dw // 2, base_dw // 4, 8]) if base_dw > 8 else 8
            dw = max(dw, 1)
        do({"call": "new", "aw": aw, "dw": dw, "al": r.choice([0, 0, 0, 1, 2])})

    new_map(root=True)
    for _ in range(r.randint(1, 4)):
        new_map()
    while len(steps) < length:
        x = r.random()
        nm = len(ex.maps)
        m = r.randint(1, nm)
        live = [k for k in range(1, nm + 1) if k not in frozen]
        if live and r.random() < 0.85:
            m = r.choice(live)
        if x < 0.45:
            if r.random() < 0.12 and placed:
                # re-adding an object: only to the map it is already in (must be refused)
                rid = r.choice(sorted(placed))
                homes = [k + 1 for k, mm in enumerate(ex.maps)
                         if any(ex.rid[id(q)] == rid for q, _, _ in mm.resources())]
                m = homes[0]
            else:
                nres[0] += 1
                rid = nres[0]
            bad = r.choice(["none"] * 12 + ["size_neg", "size_str", "addr_neg", "al_neg", "name_empty", "not_component"])
            mm = ex.maps[m - 1]
            addr = -1
            if r.random() < 0.35:
                addr = r.randrange(1 << mm.addr_width)
                if r.random() < 0.6:
                    addr &= ~((1 << mm.alignment) - 1)
            c = do({"call": "add_resource", "m": m, "res": rid, "name": tag(random_name(r)),
                    "size": r.choice([0, 1, 1, 2, 3, 4, 5, 8]), "addr": addr,
                    "alignment": r.choice([-1, -1, -1, 0, 1, 2, 3]), "bad": bad})
            if c["ok"]:
                placed.add(rid)
        elif x < 0.70 and nm > 1:
            cands = [k for k in range(1, nm + 1) if k != m and k not in used_win]
            if r.random() < 0.1:
                cands = [k for k in range(1, nm + 1) if k != m and
                         any(ex.mid[id(w)] == k for w, _, _ in ex.maps[m - 1].windows())] or cands
            if not cands:
                continue
            w = r.choice(cands)
            wm, pm = ex.maps[w - 1], ex.maps[m - 1]
            sparse = r.choice(["none", "none", "true", "false", "false"])
            if wm.data_width != pm.data_width and sparse != "true" and list(wm.windows()):
                sparse = "true"      # C03's domain: dense windows of ratio > 1 only over leaf maps
            addr = -1
            if r.random() < 0.35:
                addr = r.randrange(1 << pm.addr_width)
                if r.random() < 0.8:
                    addr &= ~((1 << min(wm.addr_width, pm.addr_width)) - 1)
            c = do({"call": "add_window", "m": m, "w": w,
                    "name": tag(r.choice([None, None, random_name(r)])), "addr": addr,
                    "sparse": sparse,
                    "bad": "not_map" if r.random() < 0.03 else "none"})
            if c["ok"]:
                used_win.add(w)
                frozen.add(w)
        elif x < 0.80:
            do({"call": "align_to", "m": m, "al": r.choice([-1, 0, 1, 2, 3, 4])})
        elif x < 0.825:
            c = do({"call": r.choice(["freeze", "freeze", "bridge", "periph"]), "m": m})
            if c["ok"]:
                frozen.add(m)
        elif x < 0.90 and nm < 7:
            new_map()
        else:
            do({"call": "lookup"})
    do({"call": "lookup"})
    return steps
