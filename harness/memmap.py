"""C02 / C03 / C18: amaranth_soc.memory.MemoryMap against specs/MemoryMap*.tla.

A history is a list of call records; the executor applies them to real objects and logs, after
every call, the outcome and everything observable (resources(), windows(), a neutral cursor
probe), and on "lookup" calls all_resources(), decode_address() of EVERY address and
find_resource() of every resource ever created plus two that were never added."""
import json

from . import common, hwcheck
from .common import rng

from amaranth_soc import csr
from amaranth_soc.csr import action
from amaranth_soc.memory import MemoryMap
from amaranth_soc.periph import PeripheralInfo


def tag(name):
    if name is None:
        return []
    if isinstance(name, (str, int)):
        name = (name,)
    return [("s:" + p) if isinstance(p, str) else ("i:" + str(p)) for p in name]


def untag(parts):
    return tuple(p[2:] if p.startswith("s:") else int(p[2:]) for p in parts)


class Reg(csr.Register, access="rw"):
    """All instances compare EQUAL (and hash alike): the memory map must go by object identity."""
    def __init__(self):
        super().__init__({"f": csr.Field(action.RW, 1)})

    def __eq__(self, other):
        return isinstance(other, Reg)

    def __hash__(self):
        return 7


class Executor:
    def __init__(self):
        self.maps = []
        self.res = {}        # rid -> object
        self.rid = {}        # id(object) -> rid
        self.mid = {}        # id(map) -> index (1-based)
        self.base = {}       # id(map) -> offset of a "huge" map (64 address bits; recorded relative to the base)

    def b(self, m):
        return self.base.get(id(m), 0)

    def aw(self, m):
        """logical address width (what the specification is told)"""
        return self._aw.get(id(m), m.addr_width) if hasattr(self, "_aw") else m.addr_width

    def resource(self, rid):
        if rid not in self.res:
            o = Reg()
            self.res[rid] = o
            self.rid[id(o)] = rid
        return self.res[rid]

    def views(self):
        out = []
        for m in self.maps:
            b = self.b(m)
            out.append({
                "resources": [[self.rid[id(r)], tag(n), s - b, e - b] for r, n, (s, e) in m.resources()],
                "windows": [[self.mid[id(w)], tag(n), s - b, e - b, q] for w, n, (s, e, q) in m.windows()],
                # (before its first, explicitly placed item the cursor of a huge map is still 0)
                "cursor": max(0, m.align_to(0) - b)})
        return out

    def info(self, ri, b=0):
        return [self.rid[id(ri.resource)], [tag(n) for n in ri.path], ri.start - b, ri.end - b, ri.width]

    def lookup(self):
        o = {"all": [], "decode": [], "find": []}
        for m in self.maps:
            b = self.b(m)
            o["all"].append([self.info(ri, b) for ri in m.all_resources()])
            dec = []
            for a in range(1 << self.aw(m)):
                r = m.decode_address(a + b)
                dec.append(0 if r is None else self.rid[id(r)])
            o["decode"].append(dec)
            fs = []
            for rid in sorted(self.res) + [9001, 9002]:
                obj = self.res.get(rid) or Reg()
                try:
                    ri = m.find_resource(obj)
                    fs.append({"id": rid, "found": 1, "info": self.info(ri, b)})
                except KeyError:
                    fs.append({"id": rid, "found": 0, "info": []})
            o["find"].append(fs)
        return o

    def apply(self, c):
        """-> (call record completed with the outcome, observation)"""
        c = dict(c)
        call = c["call"]
        if call == "new":
            huge = c.pop("huge", 0)
            m = MemoryMap(addr_width=64 if huge else c["aw"], data_width=c["dw"], alignment=c["al"])
            self.maps.append(m)
            self.mid[id(m)] = len(self.maps)
            if huge:
                # the top 2^aw addresses of a 64-bit space: every address is recorded relative to the base (the
                # allocation rules are translation-invariant for a base that is a multiple of 2^aw)
                self.base[id(m)] = (1 << 64) - (1 << c["aw"])
                if not hasattr(self, "_aw"):
                    self._aw = {}
                self._aw[id(m)] = c["aw"]
            return c, {"views": self.views()}
        if call == "lookup":
            try:
                return c, self.lookup()
            except Exception as e:  # a query that raises cannot agree with the specification
                n = len(self.maps)
                return c, {"all": [[["error", type(e).__name__]]] * n, "decode": [[]] * n, "find": [[]] * n}
        m = self.maps[c["m"] - 1]
        b = self.b(m)
        c.update(ok=1, start=0, stop=0, ratio=0, ret=0)
        try:
            if call == "add_resource":
                bad = c["bad"]
                obj = object() if bad == "not_component" else self.resource(c["res"])
                name = () if bad == "name_empty" else untag(c["name"])
                size = {"size_neg": -1, "size_str": "1"}.get(bad, c["size"])
                kw = {}
                if c["addr"] >= 0 or bad == "addr_neg":
                    kw["addr"] = -2 if bad == "addr_neg" else c["addr"] + b
                if c["alignment"] >= 0 or bad == "al_neg":
                    kw["alignment"] = -1 if bad == "al_neg" else c["alignment"]
                s0, s1 = m.add_resource(obj, name=name, size=size, **kw)
                c["start"], c["stop"] = s0 - b, s1 - b
            elif call == "add_window":
                w = object() if c["bad"] == "not_map" else self.maps[c["w"] - 1]
                kw = {}
                if c["name"]:
                    kw["name"] = untag(c["name"])
                if c["addr"] >= 0:
                    kw["addr"] = c["addr"] + b
                if c["sparse"] != "none":
                    kw["sparse"] = c["sparse"] == "true"
                s0, s1, c["ratio"] = m.add_window(w, **kw)
                c["start"], c["stop"] = s0 - b, s1 - b
            elif call == "align_to":
                c["ret"] = m.align_to(c["al"]) - b
            elif call == "freeze":
                m.freeze()
            elif call == "bridge":
                csr.Bridge(m)
            elif call == "periph":
                PeripheralInfo(memory_map=m)
            else:
                raise common.MachineryError(f"unknown call {call}")
        except Exception as e:      # any exception is "the call raised"; the class is logged
            c["ok"] = 0
            c["exc"] = type(e).__name__
        # read-only queries in between, some abandoned half way, on every map: stuttering steps
        self._nq = getattr(self, "_nq", 0) + 1
        if self._nq % 3:
            for mm in self.maps:
                common.poke_map(mm, self._nq)
        return c, {"views": self.views()}


def run_history(calls):
    ex = Executor()
    steps = []
    for c in calls:
        i, o = ex.apply(c)
        steps.append({"i": i, "o": o})
    return steps


# ---------------------------------------------------------------------------------------------
# random histories (leg C): the generator looks at the executor only to know which objects exist
# and which calls succeeded (so that one resource object never ends up in two maps of a tree)
# ---------------------------------------------------------------------------------------------
PARTS = ["a", "b", "c", "d", "0", "ctrl", "x", "y", 0, 1, 2, 3]


def random_name(r, used=None):
    """fresh names, and - to make collisions likely - names equal to, prefixes of or extensions of
    names already used somewhere in this history"""
    if used and r.random() < 0.35:
        base = r.choice(used)
        x = r.random()
        if x < 0.4:
            return base
        if x < 0.7 and len(base) > 1:
            return base[:r.randint(1, len(base) - 1)]
        return base + (r.choice(PARTS),)
    return tuple(r.choice(PARTS) for _ in range(r.choice([1, 1, 2, 2, 3])))


def random_history(r, length):
    ex = Executor()
    steps = []
    placed = set()       # rids successfully added somewhere
    used_win = set()     # map indices already used as a window
    frozen = set()       # map indices known to be frozen
    nres = [0]
    names = []
    base_dw = r.choice([8, 16, 32])

    def do(c):
        i, o = ex.apply(c)
        steps.append({"i": i, "o": o})
        return i

    def new_map(root=False):
        if root:
            aw, dw = r.choice([4, 5, 6, 6]), base_dw
        else:
            aw = r.choice([1, 1, 2, 2, 3, 4])
            dw = r.choice([base_dw, base_dw, base_dw // 2, base_dw // 4, 8]) if base_dw > 8 else 8
            dw = max(dw, 1)
        al = r.choice([0, 0, 0, 1, 2])
        if not root and dw < base_dw and r.random() < 0.8:
            al = max(al, (base_dw // dw).bit_length() - 1)     # admits a dense window into a wider map
            aw = max(aw, al + r.randint(0, 2))
        do({"call": "new", "aw": aw, "dw": dw, "al": al})

    new_map(root=True)
    for _ in range(r.randint(1, 4)):
        new_map()
    while len(steps) < length:
        x = r.random()
        nm = len(ex.maps)
        m = r.randint(1, nm)
        live = [k for k in range(1, nm + 1) if k not in frozen]
        if live and r.random() < 0.85:
            m = r.choice(live)
        if x < 0.45:
            if r.random() < 0.12 and placed:
                # re-adding an object: only to the map it is already in (must be refused)
                rid = r.choice(sorted(placed))
                homes = [k + 1 for k, mm in enumerate(ex.maps)
                         if any(ex.rid[id(q)] == rid for q, _, _ in mm.resources())]
                m = homes[0]
            else:
                nres[0] += 1
                rid = nres[0]
            bad = r.choice(["none"] * 12 + ["size_neg", "size_str", "addr_neg", "al_neg", "name_empty", "not_component"])
            mm = ex.maps[m - 1]
            addr = -1
            if r.random() < 0.35:
                addr = r.randrange(1 << mm.addr_width)
                if r.random() < 0.6:
                    addr &= ~((1 << mm.alignment) - 1)
            nm_ = random_name(r, names)
            names.append(nm_)
            c = do({"call": "add_resource", "m": m, "res": rid, "name": tag(nm_),
                    "size": r.choice([0, 1, 1, 2, 3, 4, 5, 8]), "addr": addr,
                    "alignment": r.choice([-1, -1, -1, 0, 1, 2, 3]), "bad": bad})
            if c["ok"]:
                placed.add(rid)
        elif x < 0.70 and nm > 1:
            cands = [k for k in range(1, nm + 1) if k != m and k not in used_win]
            if r.random() < 0.1:
                cands = [k for k in range(1, nm + 1) if k != m and
                         any(ex.mid[id(w)] == k for w, _, _ in ex.maps[m - 1].windows())] or cands
            if not cands:
                continue
            # deeper trees: prefer a parent that is not the root and a child that already holds something
            if r.random() < 0.6:
                deep = [k for k in live if k != 1 and k not in used_win]
                if deep:
                    m = r.choice(deep)
                    cands = [k for k in cands if k != m] or cands
            full = [k for k in cands if list(ex.maps[k - 1].resources()) or list(ex.maps[k - 1].windows())]
            if full and r.random() < 0.7:
                cands = full
            w = r.choice(cands)
            if w == m:
                continue
            wm, pm = ex.maps[w - 1], ex.maps[m - 1]
            sparse = r.choice(["none", "none", "true", "false", "false"])
            if wm.data_width != pm.data_width:
                sparse = r.choice(["true", "false", "false", "false", "none"])
            if wm.data_width != pm.data_width and sparse != "true" and list(wm.windows()):
                sparse = "true"      # C03's domain: dense windows of ratio > 1 only over leaf maps
            addr = -1
            if r.random() < 0.35:
                addr = r.randrange(1 << pm.addr_width)
                if r.random() < 0.8:
                    addr &= ~((1 << min(wm.addr_width, pm.addr_width)) - 1)
            c = do({"call": "add_window", "m": m, "w": w,
                    "name": tag(r.choice([None, None, random_name(r, names)])), "addr": addr,
                    "sparse": sparse,
                    "bad": "not_map" if r.random() < 0.03 else "none"})
            if c["ok"]:
                used_win.add(w)
                frozen.add(w)
        elif x < 0.80:
            do({"call": "align_to", "m": m, "al": r.choice([-1, 0, 1, 2, 3, 4])})
        elif x < 0.825:
            c = do({"call": r.choice(["freeze", "freeze", "bridge", "periph"]), "m": m})
            if c["ok"]:
                frozen.add(m)
        elif x < 0.90 and nm < 7:
            new_map()
        else:
            do({"call": "lookup"})
    do({"call": "lookup"})
    return steps


def structured_history(r):
    """A deliberately built tree: a leaf map densely filled with resources, attached through a dense
    (ratio 2/4/8) or sparse window that does NOT start at a multiple of its span (a resource or an
    align_to in front of it), optionally one anonymous or named level deeper; then every query."""
    ex = Executor()
    steps = []

    def do(c):
        i, o = ex.apply(c)
        steps.append({"i": i, "o": o})
        return i
    ratio = r.choice([1, 2, 2, 4, 4, 8])
    pdw = r.choice([8 * ratio, 16 * ratio]) if ratio * 16 <= 64 else 8 * ratio
    lal = ratio.bit_length() - 1
    law = r.randint(max(2, lal + 1), 5)
    do({"call": "new", "aw": 7, "dw": pdw, "al": 0})                       # 1: root
    do({"call": "new", "aw": law + 1, "dw": pdw, "al": r.choice([0, 1])})   # 2: optional middle level
    do({"call": "new", "aw": law, "dw": pdw // ratio, "al": lal})           # 3: leaf
    rid = 0
    for _ in range(r.randint(2, 6)):
        rid += 1
        do({"call": "add_resource", "m": 3, "res": rid, "name": tag((f"r{rid}",)), "size": r.choice([1, 2, 3, 4]),
            "addr": r.choice([-1, -1, r.randrange(0, 1 << law, 1 << lal)]), "alignment": -1, "bad": "none"})
    sparse = "true" if (ratio > 1 and r.random() < 0.25) else ("false" if ratio > 1 else "none")
    via_middle = r.random() < 0.5
    parent = 2 if via_middle else 1
    rid += 1
    do({"call": "add_resource", "m": parent, "res": rid, "name": tag(("front",)), "size": r.choice([1, 2, 3, 5]),
        "addr": -1, "alignment": -1, "bad": "none"})
    if r.random() < 0.3:
        do({"call": "align_to", "m": parent, "al": r.randint(0, 3)})
    span = (1 << law) // (ratio if sparse != "true" else 1)
    waddr = r.choice([-1, -1, -1, r.randrange(0, 1 << (law - 1), 1 << max(lal, 0))])
    if r.random() < 0.35:
        # an obstacle inside the span of an explicitly placed window, often in its very last addresses:
        # the window must then be refused, whatever its ratio
        waddr = r.randrange(8, 64, 1 << max(lal, 0))
        rid += 1
        do({"call": "add_resource", "m": parent, "res": rid, "name": tag(("obstacle",)), "size": 1,
            "addr": waddr + max(0, span - r.choice([1, 1, 2, 3, span])), "alignment": -1, "bad": "none"})
    do({"call": "add_window", "m": parent, "w": 3, "name": tag(r.choice([None, ("leaf",)])),
        "addr": waddr, "sparse": sparse, "bad": "none"})
    if via_middle:
        rid += 1
        do({"call": "add_resource", "m": 1, "res": rid, "name": tag(("top",)), "size": r.choice([1, 3, 6]),
            "addr": -1, "alignment": -1, "bad": "none"})
        do({"call": "add_window", "m": 1, "w": 2, "name": tag(r.choice([None, ("mid",)])), "addr": -1,
            "sparse": "none", "bad": "none"})
    do({"call": "lookup"})
    return steps


# ---------------------------------------------------------------------------------------------
# the checks
# ---------------------------------------------------------------------------------------------
from . import tlc, tracecheck          # noqa: E402
from .common import Run                # noqa: E402
from .hw import pmap                   # noqa: E402

MC = """SPECIFICATION Spec
CONSTANTS MaxItems = {items}
  Export = FALSE
  RootAls = {als}
  Rich = {rich}
CONSTRAINT Bound
ACTION_CONSTRAINT Props
CHECK_DEADLOCK FALSE
"""
INVS = {
    "C02": ["Disjoint", "InBounds", "MapAligned", "AbsSafe"],
    "C03": ["LookupCoherent", "Disjoint"],
    "C18": ["PathsDistinct", "VisiblePrefixFree"],
}
WITNESS = {"C02": "NoDenseWindowEver", "C03": "NoDenseWindowEver", "C18": "NoAnonymousAbsorb"}


def twin_history(r):
    """Names that look alike once their parts are turned into strings - the integer N and the string 'N' at the
    same position under one prefix - together with queries for their prefixes and extensions, directly and
    through an anonymous window; every ordering of the two twins."""
    ex = Executor()
    steps = []

    def do(c):
        i, o = ex.apply(c)
        steps.append({"i": i, "o": o})
        return i
    do({"call": "new", "aw": 6, "dw": 8, "al": 0})        # 1: root
    do({"call": "new", "aw": 3, "dw": 8, "al": 0})        # 2: child, absorbed anonymously later
    rid = [0]

    def add(m, name):
        rid[0] += 1
        return do({"call": "add_resource", "m": m, "res": rid[0], "name": tag(name), "size": 1, "addr": -1,
                   "alignment": -1, "bad": "none"})
    pre = tuple(r.choice(["ch", "a", 7]) for _ in range(r.choice([0, 1, 1, 2])))
    n = r.choice([0, 1, 2])
    shape = r.choice(["equal", "equal", "short-int", "short-str"])
    if shape == "equal":
        twins = [pre + (n, r.choice(["ctrl", "x"])), pre + (str(n), r.choice(["data", "y"]))]
    elif shape == "short-int":
        twins = [pre + (n,), pre + (str(n), r.choice(["ctrl", "x"]))]         # ('bank', 0) next to ('bank', '0', 'ctrl')
    else:
        twins = [pre + (str(n),), pre + (n, r.choice(["ctrl", "x"]))]
    r.shuffle(twins)
    others = [pre + (r.choice(["b", "zz", 5]),), (r.choice(["q", 9]),)]
    first = twins[:1] + others[:r.randint(0, 2)] + twins[1:]
    via_child = r.random() < 0.5
    for k, nm_ in enumerate(first):
        add(2 if via_child and k == len(first) - 1 else 1, nm_)
    if via_child:
        do({"call": "add_window", "m": 1, "w": 2, "name": [], "addr": -1, "sparse": "none", "bad": "none"})
    queries = [pre + (str(n),), pre + (n,), twins[0] + ("more",), twins[1] + (0,), twins[0], twins[1], pre + (n, "fresh"),
               pre + (str(n), 0), pre + (n, "data"), pre + (str(n), "data"), pre + (n, "data", 1)] + ([pre] if pre else [])
    r.shuffle(queries)
    for q in queries:
        add(1, q)
    do({"call": "lookup"})
    return steps


def retry_history(r):
    """A window refused for an ADDRESS reason stays open: it then takes more names (directly or by absorbing an
    anonymous sub-window) and is offered again, to the same parent or to a second one.  The parent must judge the
    names the window has NOW."""
    ex = Executor()
    steps = []

    def do(c):
        i, o = ex.apply(c)
        steps.append({"i": i, "o": o})
        return i
    do({"call": "new", "aw": 6, "dw": 8, "al": 0})        # 1: parent
    do({"call": "new", "aw": 3, "dw": 8, "al": 0})        # 2: window, refused once
    do({"call": "new", "aw": r.choice([1, 2]), "dw": 8, "al": 0})        # 3: sub-window absorbed by 2 after the refusal
    do({"call": "new", "aw": 6, "dw": 8, "al": 0})        # 4: second parent
    rid = [0]

    def add(m, name, addr=-1):
        rid[0] += 1
        return do({"call": "add_resource", "m": m, "res": rid[0], "name": tag(name), "size": 1, "addr": addr,
                   "alignment": -1, "bad": "none"})
    clash = r.choice([("b",), ("b", 0), ("grp", "b"), (3,)])
    late = r.choice([clash, clash, clash[:1] + ("deeper",) if len(clash) == 1 else clash[:1], ("other",)])
    add(1, clash)
    add(4, clash)
    add(2, ("a",))
    if r.random() < 0.5:
        do({"call": "lookup"})
    # refused: overlaps the parent's first resource, or lies outside the parent
    do({"call": "add_window", "m": 1, "w": 2, "name": [], "addr": r.choice([0, 60]), "sparse": "none", "bad": "none"})
    how = r.choice(["absorb", "absorb", "direct"])
    if how == "absorb":
        add(3, late)
        do({"call": "add_window", "m": 2, "w": 3, "name": [], "addr": -1, "sparse": "none", "bad": "none"})
    else:
        add(2, late)
    for m in r.sample([1, 4], 2):
        do({"call": "add_window", "m": m, "w": 2, "name": tag(r.choice([None, None, ("w",)])), "addr": r.choice([-1, 8]),
            "sparse": "none", "bad": "none"})
    add(1, ("z",))
    do({"call": "lookup"})
    return steps


def shared_window_history(r):
    """One frozen map as an anonymous window of TWO parents (each the first thing its parent receives, or not):
    what one parent takes afterwards is none of the other's, nor the window's, business."""
    ex = Executor()
    steps = []

    def do(c):
        i, o = ex.apply(c)
        steps.append({"i": i, "o": o})
        return i
    do({"call": "new", "aw": 6, "dw": 8, "al": 0})        # 1, 2: parents
    do({"call": "new", "aw": 6, "dw": 8, "al": 0})
    do({"call": "new", "aw": 3, "dw": 8, "al": 0})        # 3: the shared window
    rid = [0]

    def add(m, name):
        rid[0] += 1
        return do({"call": "add_resource", "m": m, "res": rid[0], "name": tag(name), "size": 1, "addr": -1,
                   "alignment": -1, "bad": "none"})
    g = r.choice(["g", "grp", 0])
    add(3, ("a",))
    add(3, (g, "a"))
    first = r.random() < 0.6
    for m in (1, 2):
        if not first or (m == 2 and r.random() < 0.3):
            add(m, ("pre", m))
        do({"call": "add_window", "m": m, "w": 3, "name": [], "addr": -1, "sparse": "none", "bad": "none"})
    later = [("x",), (g, "b"), (g, "b", 1), ("a",), (g, "a")]          # the last two clash with the window, in both
    r.shuffle(later)
    for nm_ in later:
        for m in r.sample([1, 2], 2):
            add(m, nm_)
    add(3, ("late",))                                                   # frozen: refused
    do({"call": "lookup"})
    return steps


def huge_history(r):
    """The top 2^aw addresses of a 64-bit map (recorded relative to the base): the same rules must hold where
    addresses no longer fit a double or a machine word.  Starts with an explicitly placed anchor so that the
    cursor lives up there; then implicit / explicit / aligned resources, small windows, align_to, lookups."""
    ex = Executor()
    steps = []

    def do(c):
        i, o = ex.apply(c)
        steps.append({"i": i, "o": o})
        return i
    aw = r.choice([6, 7, 8])
    do({"call": "new", "aw": aw, "dw": 8, "al": r.choice([0, 0, 1]), "huge": 1})
    for _ in range(2):
        do({"call": "new", "aw": r.choice([1, 2, 3]), "dw": 8, "al": 0})
    rid = [0]

    def add(m, addr, size, al):
        rid[0] += 1
        return do({"call": "add_resource", "m": m, "res": rid[0], "name": tag((f"r{rid[0]}",)), "size": size, "addr": addr,
                   "alignment": al, "bad": "none"})
    add(1, r.choice([0, 2, 4]), r.choice([1, 3]), -1)                     # the anchor
    add(2, -1, 1, -1)
    add(3, -1, 2, -1)
    used = set()
    for _ in range(r.randint(8, 16)):
        x = r.random()
        if x < 0.6:
            add(1, r.choice([-1, -1, -1, r.randrange(1 << aw)]), r.choice([1, 1, 2, 3, 5, 8]), r.choice([-1, -1, 0, 1, 2, 3]))
        elif x < 0.75:
            do({"call": "align_to", "m": 1, "al": r.choice([0, 1, 2, 3, 4])})
        elif x < 0.9 and len(used) < 2:
            w = r.choice([k for k in (2, 3) if k not in used])
            c = do({"call": "add_window", "m": 1, "w": w, "name": tag(r.choice([None, (f"w{w}",)])),
                    "addr": r.choice([-1, -1, r.randrange(0, 1 << aw, 8)]), "sparse": "none", "bad": "none"})
            if c["ok"]:
                used.add(w)
        else:
            do({"call": "lookup"})
    do({"call": "lookup"})
    return steps


def _hist_job(job):
    kind, arg = job
    if kind == "random":
        seed, length = arg
        if seed % 8 == 5:
            return {"cfg": {"seed": seed, "huge": 1}, "steps": huge_history(rng("mm-huge", seed))}
        if seed % 8 == 1:
            return {"cfg": {"seed": seed, "twins": 1}, "steps": twin_history(rng("mm-twin", seed))}
        if seed % 16 in (4, 14):
            return {"cfg": {"seed": seed, "shared": 1}, "steps": shared_window_history(rng("mm-shared", seed))}
        if seed % 16 in (2, 12):
            return {"cfg": {"seed": seed, "retry": 1}, "steps": retry_history(rng("mm-retry", seed))}
        if seed % 4 == 3:
            return {"cfg": {"seed": seed, "structured": 1}, "steps": structured_history(rng("mm-struct", seed))}
        return {"cfg": {"seed": seed}, "steps": random_history(rng("mm-hist", seed), length)}
    key, calls = arg
    return {"cfg": {"key": key}, "steps": run_history(calls)}


def report(run, traces, fails, tag):
    for fl in fails:
        tr = traces[fl["trace"]]
        t = fl["t"]
        call = tr["steps"][t - 1]["i"]
        run.report(f"{tag}:{fl['err']}:{json.dumps(call, sort_keys=True)[:160]}",
                   f"MemoryMap history rejected at call {t} ({call.get('call')}), clause {fl['err']}",
                   {"history": [s["i"] for s in tr["steps"][:t]], "failing_call": call,
                    "observed": tr["steps"][t - 1]["o"], "clause": fl["err"]})


CLAUSES = {   # which trace-validation clauses belong to which property
    "C02": None,      # all clauses
    "C03": {"all_resources()", "decode_address()", "decode vs all_resources", "find_resource()"},
    "C18": {"accepted a call that must be refused", "refused a legal call", "resources()", "windows()",
            "all_resources()"},
}


def main(prop, tier):
    run = Run(prop, tier)
    thorough = tier == "thorough"
    run.cov["rule"] = (
        "leg A: TLC explores MemoryMap_MC (root aw=3 with alignment 0/1, a ratio-1 and a ratio-2/sparse "
        "window candidate, sizes 0-3, every explicit address or implicit, per-call alignments, invalid "
        "arguments, colliding names, align_to, freeze, bridge) up to a bounded number of placed items, "
        "both outcomes where the specification allows either; leg B: TLC -simulate behaviours of that model "
        "replayed call by call on real MemoryMap objects; leg C: seeded random histories over up to 7 maps "
        "(aw<=6, ratio 2/4 dense, sparse and ratio-1 windows, names of 1-3 parts incl. '0' vs 0); after every "
        "call resources()/windows()/cursor probe of every map are logged, and on lookup calls "
        "all_resources(), find_resource() of every object (and two never added) and decode_address() of "
        "EVERY address; TLC validates every step against MemoryMap.tla. A case is one call; non-trivial = "
        "an add_resource/add_window/align_to call (accepted or refused).")
    run.assumptions += ["align_to(0) is used as a behaviourally neutral probe of the placement cursor",
                        "each resource object is added to at most one map of a tree (C03's 'exactly once')"]
    # ---- leg A
    # C02: the full numeric product, shallow trees; C03/C18: lean alphabet, trees two windows deep
    rich = "TRUE" if prop == "C02" else "FALSE"
    # measured: rich/3 items = 594 M transitions (27 min), lean/4 items = 267 M (13 min): the thorough
    # tier of C02 therefore runs rich/2 on both root alignments plus lean/3, C03/C18 lean/4
    items = 2 if prop == "C02" else (4 if thorough else 3)
    als = "{0, 1}" if prop == "C02" or thorough else "{0}"
    cfg = MC.format(items=items, als=als, rich=rich) + "VIEW View\n" + "".join(f"INVARIANT {i}\n" for i in INVS[prop])
    res = tlc.run("MemoryMap_MC", cfg, timeout=3000)
    tlc.require_ok(res, "MemoryMap_MC")
    if not res.ok:
        raise common.MachineryError("MemoryMap specification violates its own properties: "
                                    + str(res.assert_payload or res.errors) + res.raw[-2000:])
    run.add_tlc(res, f"MemoryMap_MC MaxItems={items} RootAls={als} Rich={rich}: {', '.join(INVS[prop])} + per-call assertions")
    if prop == "C02" and thorough:
        cfg3 = MC.format(items=3, als="{0, 1}", rich="FALSE") + "VIEW View\n" + "".join(f"INVARIANT {i}\n" for i in INVS[prop])
        res3 = tlc.run("MemoryMap_MC", cfg3, timeout=3000)
        tlc.require_ok(res3, "MemoryMap_MC lean/3")
        if not res3.ok:
            raise common.MachineryError("MemoryMap specification violates its own properties: " + res3.raw[-2000:])
        run.add_tlc(res3, "MemoryMap_MC MaxItems=3 Rich=FALSE (trees two windows deep)")
    w = tlc.run("MemoryMap_MC", MC.format(items=3, als="{0}", rich="FALSE") + f"VIEW View\nINVARIANT {WITNESS[prop]}\n",
                timeout=900)
    if w.violated != WITNESS[prop]:
        raise common.MachineryError(f"vacuity witness {WITNESS[prop]} was not refuted")
    run.cov["vacuity_witnesses_refuted"] = [WITNESS[prop]]
    if prop == "C02":
        # deductive leg: the abstract allocator MemoryMapAbs (which MemoryMap_MC was just checked to refine, and
        # against whose step relation every recorded step of the real code is validated below) is safe for EVERY size
        from . import proofs
        proofs.run_for("C02", run, with_apalache=True)
    if prop == "C18":
        # deductive leg: NamesAbs - prefix-freeness for every forest of maps and every universe of names
        from . import proofs
        proofs.run_for("C18", run, with_apalache=False)
    # ---- leg B: TLC-generated behaviours replayed on real objects
    num, depth = (400, 14) if thorough else (120, 10)
    sres, behs = tlc.simulate_behaviours("MemoryMap_MC", MC.format(items=5, als="{0, 1}", rich="FALSE"), num=num, depth=depth,
                                         wanted=("key", "lastin"), seed=common.seed() + 11)
    run.add_tlc(sres, "MemoryMap_MC -simulate (behaviours for replay)")
    jobs = []
    for b in behs:
        if len(b) < 2:
            continue
        al = b[0]["key"]
        prelude = [{"call": "new", "aw": 3, "dw": 16, "al": al}, {"call": "new", "aw": 2, "dw": 16, "al": 0},
                   {"call": "new", "aw": 1, "dw": 8, "al": 1}]
        calls = prelude + [s["lastin"] for s in b[1:]] + [{"call": "lookup"}]
        jobs.append(("replay", (al, calls)))
    # ---- leg C: random histories
    n, length = (1600, 60) if thorough else (400, 40)
    base = common.seed() * 100000
    jobs += [("random", (base + k, length)) for k in range(n)]
    traces = pmap(_hist_job, jobs)
    fails = tracecheck.validate("MemoryMap_Trace", "Mm", traces, run, "API histories (legs B and C)")
    mine = CLAUSES[prop]
    fails = [f for f in fails if mine is None or f["err"] in mine]
    report(run, traces, fails, "history")
    for tr in traces:
        run.count(len(tr["steps"]))
        for s in tr["steps"]:
            c = s["i"]
            run.distinct(json.dumps({k: v for k, v in c.items() if k not in ("start", "stop", "ret", "exc")},
                                    sort_keys=True), c["call"] in ("add_resource", "add_window", "align_to"))
    run.cov["behaviours_replayed"] = sum(1 for j in jobs if j[0] == "replay")
    run.cov["random_histories"] = n
    ex = traces[-1]["steps"]
    run.sample({"calls": [s["i"] for s in ex[:6]]})
    return run.finish()


def replay(path):
    with open(path) as f:
        doc = json.load(f)
    rp = doc["replay"]
    if "history" not in rp:
        print(f"replay file {path} carries no history; finding was: {doc.get('what')}")
        return common.EXIT_MACHINERY
    calls = [{k: v for k, v in c.items() if k not in ("ok", "start", "stop", "ratio", "ret", "exc")} for c in rp["history"]]
    tr = {"cfg": {"replay": 1}, "steps": run_history(calls)}
    fails = tracecheck.validate("MemoryMap_Trace", "Mm", [tr])
    if fails:
        print(f"VIOLATION property={doc['property']} replay={path}\n  what: still rejected at call {fails[0]['t']}, "
              f"clause {fails[0]['err']}")
        return common.EXIT_VIOLATION
    print(f"replay of {path}: accepted by the specification on this tree ({len(calls)} calls)")
    return common.EXIT_OK
