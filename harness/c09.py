from . import arbiter


def main(tier):
    return arbiter.main("C09", tier)
