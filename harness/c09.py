from . import arbiter


def main(tier):
    return arbiter.main("C09", tier)


def replay(path):
    return arbiter.replay(path)
