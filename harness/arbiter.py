"""C08 / C09: wishbone.Arbiter against specs/WbArbiter*.tla."""
import json
import os

from . import common, tlc, tracecheck
from .common import Run, rng
from .hw import simulate, pmap, tour

from amaranth.hdl import Fragment
from amaranth_soc import wishbone
from amaranth_soc.wishbone.bus import Feature

FEATS = ["err", "rty", "stall", "lock", "cti", "bte"]
CTI = [0, 1, 2, 7]


def tobytes(v, width):
    return [(v >> (8 * k)) & 0xff for k in range(width // 8)]


def featset(d):
    return {Feature(f) for f in FEATS if d.get(f)}


# ---------------------------------------------------------------------------------------
# building the real thing
# ---------------------------------------------------------------------------------------
def _refused_adds(arb, cfg, k):
    """add() calls the arbiter must refuse, made BETWEEN accepted ones: a refused initiator must not take part
    in arbitration afterwards (it would show as an extra participant: wrong owner, wrong successor)."""
    bad = [dict(addr_width=cfg["aw"] + 1, data_width=cfg["dw"], granularity=cfg["gran"]),
           dict(addr_width=cfg["aw"], data_width=cfg["dw"] * 2 if cfg["dw"] < 64 else cfg["dw"] // 2,
                granularity=min(cfg["gran"], cfg["dw"] // 2 if cfg["dw"] >= 64 else cfg["gran"]))]
    if cfg["gran"] > 8:
        bad.append(dict(addr_width=cfg["aw"], data_width=cfg["dw"], granularity=cfg["gran"] // 2))
    if cfg["feat"].get("err") or cfg["feat"].get("rty"):
        bad.append(dict(addr_width=cfg["aw"], data_width=cfg["dw"], granularity=cfg["gran"]))      # lacks err/rty
    for n, kw in enumerate(bad):
        try:
            ib = wishbone.Interface(path=(f"refused{k}_{n}",), **kw)
        except (ValueError, TypeError):
            continue
        try:
            arb.add(ib)
        except ValueError:
            continue
        raise common.Violation("arbiter-accepted-incompatible",
                               f"wishbone.Arbiter.add() accepted an incompatible initiator {kw} on {cfg['aw']}/{cfg['dw']}/{cfg['gran']}")


def build(cfg):
    arb = wishbone.Arbiter(addr_width=cfg["aw"], data_width=cfg["dw"], granularity=cfg["gran"],
                           features=featset(cfg["feat"]))
    intrs = []
    for k, ic in enumerate(cfg["intr"]):
        if (k + cfg["aw"] + len(cfg["intr"])) % 2 == 0:
            _refused_adds(arb, cfg, k)
        ib = wishbone.Interface(addr_width=cfg["aw"], data_width=cfg["dw"],
                                granularity=cfg["gran"] * ic["ratio"],
                                features=featset(ic["feat"]), path=(f"intr{k}",))
        if k >= 1 and (k + cfg["dw"] + len(cfg["intr"])) % 3 == 0:
            # a user may elaborate (convert, simulate) an arbiter and THEN give it more initiators: the next
            # elaboration is of the arbiter as it is then
            try:
                Fragment.get(arb, None)
            except Exception:
                pass
        arb.add(ib)
        intrs.append(ib)
    ins, outs = {}, {}
    for k, ib in enumerate(intrs):
        for s in ("cyc", "stb", "we", "adr", "dat_w", "sel"):
            ins[f"i{k}.{s}"] = getattr(ib, s)
        for s in ("lock", "cti", "bte"):
            if hasattr(ib, s):
                ins[f"i{k}.{s}"] = getattr(ib, s)
        for s in ("ack", "dat_r", "err", "rty", "stall"):
            if hasattr(ib, s):
                outs[f"i{k}.{s}"] = getattr(ib, s)
    for s in ("ack", "dat_r", "err", "rty", "stall"):
        if hasattr(arb.bus, s):
            ins[f"t.{s}"] = getattr(arb.bus, s)
    for s in ("adr", "dat_w", "sel", "we", "stb", "cyc", "lock", "cti", "bte"):
        if hasattr(arb.bus, s):
            outs[f"b.{s}"] = getattr(arb.bus, s)
    return arb, ins, outs


def to_step(cfg, i, o):
    """simulator dicts -> the i/o records of WbArbiter.tla"""
    dw = cfg["dw"]
    n = cfg["n"]
    intr_in = []
    for k in range(n):
        nsel = dw // (cfg["gran"] * cfg["intr"][k]["ratio"])
        intr_in.append({
            "cyc": i[f"i{k}.cyc"], "stb": i[f"i{k}.stb"], "we": i[f"i{k}.we"],
            "lock": i.get(f"i{k}.lock", 0), "cti": i.get(f"i{k}.cti", 0),
            "bte": i.get(f"i{k}.bte", 0), "adr": i[f"i{k}.adr"],
            "dat_w": tobytes(i[f"i{k}.dat_w"], dw), "sel": common.bits(i[f"i{k}.sel"], nsel)})
    tgt = {"ack": i["t.ack"], "err": i.get("t.err", 0), "rty": i.get("t.rty", 0),
           "stall": i.get("t.stall", 0), "dat_r": tobytes(i["t.dat_r"], dw)}
    bus = {"adr": o["b.adr"], "dat_w": tobytes(o["b.dat_w"], dw),
           "sel": common.bits(o["b.sel"], dw // cfg["gran"]), "we": o["b.we"], "stb": o["b.stb"],
           "cyc": o["b.cyc"], "lock": o.get("b.lock", 0), "cti": o.get("b.cti", 0),
           "bte": o.get("b.bte", 0)}
    intr_out = [{"ack": o[f"i{k}.ack"], "err": o.get(f"i{k}.err", 0), "rty": o.get(f"i{k}.rty", 0),
                 "stall": o.get(f"i{k}.stall", 0), "dat_r": tobytes(o[f"i{k}.dat_r"], dw)}
                for k in range(n)]
    return {"i": {"intr": intr_in, "tgt": tgt}, "o": {"bus": bus, "intr": intr_out}}


# ---------------------------------------------------------------------------------------
# configurations and stimuli
# ---------------------------------------------------------------------------------------
def random_cfg(r, n=None):
    n = n or r.choice([1, 2, 2, 3, 3, 4, 5, 6, 8])
    dw = r.choice([8, 16, 32, 64])
    grans = [g for g in (8, 16, 32, 64) if g <= dw]
    gran = r.choice(grans)
    feat = {f: r.randint(0, 1) for f in FEATS}
    intr = []
    for _ in range(n):
        f = {x: r.randint(0, 1) for x in FEATS}
        for x in ("err", "rty"):
            if feat[x]:
                f[x] = 1
        ratio = r.choice([q for q in (1, 2, 4, 8) if gran * q <= dw])
        intr.append({"feat": f, "ratio": ratio})
    return {"n": n, "aw": r.choice([1, 2, 4, 8, 16, 30]), "dw": dw, "gran": gran,
            "feat": feat, "intr": intr}


def random_schedule(r, cfg, length):
    """Hostile schedule: initiators need not behave; values are sticky so that lock/cyc are held
    over several cycles and ownership changes happen in every phase."""
    n, dw, aw = cfg["n"], cfg["dw"], cfg["aw"]
    cur = {}
    p_keep = r.choice([0.0, 0.3, 0.6, 0.8])
    p_cyc = r.choice([0.2, 0.5, 0.8])
    for _ in range(length):
        step = {}
        for k in range(n):
            nsel = dw // (cfg["gran"] * cfg["intr"][k]["ratio"])
            f = cfg["intr"][k]["feat"]
            if k not in cur or r.random() >= p_keep:
                cur[k] = {"cyc": int(r.random() < p_cyc), "stb": r.randint(0, 1),
                          "we": r.randint(0, 1), "adr": r.getrandbits(aw),
                          "dat_w": r.getrandbits(dw), "sel": r.getrandbits(nsel),
                          "lock": r.randint(0, 1), "cti": r.choice(CTI), "bte": r.randint(0, 3)}
            for s, v in cur[k].items():
                if s in ("lock", "cti", "bte") and not f[s]:
                    continue
                step[f"i{k}.{s}"] = v
        step["t.ack"] = r.randint(0, 1)
        step["t.dat_r"] = r.getrandbits(dw)
        for s in ("err", "rty", "stall"):
            if cfg["feat"][s]:
                step[f"t.{s}"] = r.randint(0, 1)
        yield step


def record(job):
    cfg, steps = job
    try:
        dut, ins, outs = build(cfg)
    except common.Violation as v:
        return {"cfg": cfg, "steps": [], "stim": [], "violation": [v.key, v.what]}
    log = simulate(dut, ins, outs, iter(steps).__next__ if False else _seq(steps))
    return {"cfg": cfg, "steps": [to_step(cfg, i, o) for i, o in log], "stim": list(steps)}


def _seq(steps):
    it = iter(steps)
    return lambda obs: next(it, None)


# ---------------------------------------------------------------------------------------
# leg A: model checking, and export of the transition relation
# ---------------------------------------------------------------------------------------
MC_CFG = """SPECIFICATION Spec
CONSTANTS MaxN = {n}
  Mode = "{mode}"
VIEW View
INVARIANT OwnerInRange
ACTION_CONSTRAINT Props
CHECK_DEADLOCK FALSE
"""

LIVE_CFG = """SPECIFICATION Spec
CONSTANTS N = {n}
  HasLock = {lock}
INVARIANT {inv}
{prop}
CHECK_DEADLOCK FALSE
"""


def model_check(run, runs):
    """runs: list of (MaxN, mode).  Any failed assertion here is a defect of the specification
    library itself (the operational spec does not imply the declarative property)."""
    for n, mode in runs:
        res = tlc.run("WbArbiter_MC", MC_CFG.format(n=n, mode=mode), timeout=1500)
        tlc.require_ok(res, f"WbArbiter_MC n={n} {mode}")
        if not res.ok:
            raise common.MachineryError("specification WbArbiter does not imply its properties: "
                                        + str(res.assert_payload or res.errors))
        run.add_tlc(res, f"WbArbiter_MC MaxN={n} mode={mode}: C08/C09 per-transition properties")


def liveness(run, ns):
    for n in ns:
        for lock in (0, 1):
            res = tlc.run("WbArbiter_Live", LIVE_CFG.format(
                n=n, lock=lock, inv="BoundedWait\nINVARIANT TightWait", prop="PROPERTY NoStarvation"), timeout=900)
            tlc.require_ok(res, "WbArbiter_Live")
            if not res.ok:
                raise common.MachineryError("WbArbiter specification is not fair: " + str(res.errors))
            run.add_tlc(res, f"WbArbiter_Live N={n} lock={lock}: BoundedWait, NoStarvation")
    # vacuity: somebody really has to wait N-1 grants
    res = tlc.run("WbArbiter_Live", LIVE_CFG.format(n=3, lock=1, inv="NobodyWaits", prop=""),
                  timeout=300)
    if res.violated != "NobodyWaits":
        raise common.MachineryError("vacuity witness NobodyWaits was not refuted")
    run.cov.setdefault("vacuity_witnesses_refuted", []).append("NobodyWaits")
    # deductive leg: bounded waiting for EVERY N (TLAPS) of the abstract relation that WbArbiter_MC /
    # WbArbiter_Succ_MC refine on every transition and that every recorded cycle is validated against
    from . import proofs
    proofs.run_for("C09", run, with_apalache=False)


def export_edges(n):
    res = tlc.run("WbArbiter_MC", MC_CFG.format(n=n, mode="export"), timeout=900, workers=4)
    tlc.require_ok(res, "WbArbiter_MC export")
    cfgs = {json.dumps(c["key"], sort_keys=True): c["cfg"] for c in res.edges("CFG")}
    edges = {}
    for e in res.edges("EDGE"):
        edges.setdefault(json.dumps(e["key"], sort_keys=True), set()).add(
            (e["g"], tuple(e["cyc"]), tuple(e["stb"]), tuple(e["lock"]), e["g2"]))
    return res, cfgs, edges


def tour_job(job):
    """Walk every exported transition of one configuration on the real arbiter."""
    key, cfg, edges, salt = job
    r = rng("arb-tour", key, salt)
    n = cfg["n"]
    cfg = dict(cfg)
    maxratio = max(ic["ratio"] for ic in cfg["intr"])
    cfg.update(aw=4, gran=8, dw=8 * maxratio * r.choice([1, 2]))
    if cfg["dw"] > 64:
        cfg["dw"] = 64
    walks, left = tour([(g, (c, s, l), g2) for (g, c, s, l, g2) in edges], 1, r)
    if len(walks) != 1:
        raise common.MachineryError("arbiter tour needed a restart")
    walk = walks[0]
    steps = []
    for (g, (c, s, l), g2) in walk:
        step = {}
        for k in range(n):
            f = cfg["intr"][k]["feat"]
            nsel = cfg["dw"] // (cfg["gran"] * cfg["intr"][k]["ratio"])
            step.update({f"i{k}.cyc": c[k], f"i{k}.stb": s[k], f"i{k}.we": r.randint(0, 1),
                         f"i{k}.adr": k + 1, f"i{k}.dat_w": r.getrandbits(cfg["dw"]),
                         f"i{k}.sel": r.getrandbits(nsel)})
            if f["lock"]:
                step[f"i{k}.lock"] = l[k]
            if f["cti"]:
                step[f"i{k}.cti"] = r.choice(CTI)
            if f["bte"]:
                step[f"i{k}.bte"] = r.randint(0, 3)
        step["t.ack"] = 1
        step["t.dat_r"] = r.getrandbits(cfg["dw"])
        for x in ("err", "rty", "stall"):
            if cfg["feat"][x]:
                step[f"t.{x}"] = r.randint(0, 1)
        steps.append(step)
    tr = record((cfg, steps))
    # implementation transition table, observed behaviourally: the owner is the initiator whose
    # (distinct) address is on the shared bus and who receives the acknowledge
    owners = []
    for stp in tr["steps"]:
        adr = stp["o"]["bus"]["adr"]
        acks = [k + 1 for k in range(n) if stp["o"]["intr"][k]["ack"] == 1]
        owners.append((adr, acks))
    table = []
    for idx, (g, (c, s, l), g2) in enumerate(walk):
        nxt = owners[idx + 1] if idx + 1 < len(owners) else None
        table.append({"g": g, "cyc": c, "stb": s, "lock": l, "g2_spec": g2,
                      "own": owners[idx][0], "own_ack": owners[idx][1],
                      "own2": None if nxt is None else nxt[0],
                      "own2_ack": None if nxt is None else nxt[1]})
    tr["walk_len"] = len(walk)
    tr["edges_left"] = left
    tr["table"] = table
    tr["key"] = key
    return tr


SUCC_CFG = """SPECIFICATION Spec
CONSTANTS Ns = {ns}
  Export = {export}
VIEW View
ACTION_CONSTRAINT Props
CHECK_DEADLOCK FALSE
"""


def _big_tour_job(job):
    n, lock, edges, salt = job
    r = rng("arb-big", n, lock, salt)
    feat = {f: 0 for f in FEATS}
    feat["lock"] = lock
    feat["stall"] = r.randint(0, 1)
    cfg = {"n": n, "aw": 5, "dw": 8, "gran": 8, "feat": feat,
           "intr": [{"feat": dict(feat, stall=r.randint(0, 1)), "ratio": 1} for _ in range(n)]}
    walks, left = tour([(g, (req, h), g2) for (g, req, h, g2) in edges], 1, r)
    if len(walks) != 1 or left:
        raise common.MachineryError("big-N arbiter tour incomplete")
    steps = []
    for (g, (req, h), g2) in walks[0]:
        step = {}
        for k in range(n):
            own = (k == g - 1)
            # the owner holds its cycle through stb and/or lock; everybody else does whatever
            stb = (r.choice([(1, 0), (0, 1), (1, 1)]) if lock else (1, r.randint(0, 1))) if (own and h) else \
                  ((0, 0) if own else (r.randint(0, 1), r.randint(0, 1)))
            step.update({f"i{k}.cyc": req[k], f"i{k}.stb": stb[0], f"i{k}.we": r.randint(0, 1),
                         f"i{k}.adr": k + 1, f"i{k}.dat_w": r.getrandbits(8), f"i{k}.sel": 1})
            if lock:
                step[f"i{k}.lock"] = stb[1]
        step["t.ack"] = 1
        step["t.dat_r"] = r.getrandbits(8)
        if feat["stall"]:
            step["t.stall"] = r.randint(0, 1)
        steps.append(step)
    tr = record((cfg, steps))
    tr["walk_len"] = len(steps)
    return tr


def big_n(run, ns):
    """Exact successor for larger N: the abstraction (owner, request vector, owner holds) is explored
    by TLC (WbArbiter_Succ_MC) and every one of its transitions is taken on a real N-initiator arbiter."""
    txt = "{" + ", ".join(str(x) for x in ns) + "}"
    res = tlc.run("WbArbiter_Succ_MC", SUCC_CFG.format(ns=txt, export="TRUE"), workers=4, timeout=900)
    tlc.require_ok(res, "WbArbiter_Succ_MC")
    if not res.ok:
        raise common.MachineryError("WbArbiter successor rule fails for larger N: " + str(res.assert_payload or res.errors))
    run.add_tlc(res, f"WbArbiter_Succ_MC N in {txt}: ExactSuccessor on the (owner, requests, hold) abstraction")
    groups = {}
    for e in res.edges("EDGE"):
        h = e["hold"] if e["lock"] else 1
        if not e["lock"] and e["hold"] == 0:
            continue        # without LOCK the owner's cyc alone holds the bus: 'hold' is not an input
        groups.setdefault((e["n"], e["lock"]), set()).add((e["g"], tuple(e["req"]), h, e["g2"]))
    jobs = [(n, lock, sorted(es), 0) for (n, lock), es in sorted(groups.items())]
    tours = pmap(_big_tour_job, jobs)
    fails = tracecheck.validate("WbArbiter_Trace", "Arb", tours, run, f"edge tours on real arbiters with N in {txt}")
    report_failures(run, tours, fails, "bigN")
    for t in tours:
        run.count(len(t["steps"]))
    run.cov["big_n_tour"] = {"N": list(ns), "edges": sum(len(j[2]) for j in jobs),
                             "cycles": sum(t["walk_len"] for t in tours)}


IMPL_CFG = """SPECIFICATION Spec
PROPERTY NoStarvation
INVARIANT BoundedWait
CHECK_DEADLOCK FALSE
"""


def check_tables(run, traces, prop):
    """C09 on the EXTRACTED implementation: the tour's observations are the real design's
    complete transition table (owner, inputs) -> owner'."""
    n_bad = 0
    for tr in traces:
        cfg = tr["cfg"]
        n = cfg["n"]
        tab = {}
        abstr = {}
        for e in tr["table"]:
            if e["own2"] is None:
                continue
            if e["own"] != e["g"] or e["own_ack"] != [e["g"]]:
                continue    # the trace validation reports this one
            k = (e["g"], tuple(e["cyc"]), tuple(e["stb"]), tuple(e["lock"]))
            if tab.setdefault(k, e["own2"]) != e["own2"]:
                if run.report(f"arbiter-table-not-function:{tr['key']}",
                              f"arbiter next owner is not a function of (owner, inputs): {k}",
                              {"cfg": cfg, "entry": e}):
                    n_bad += 1
            g = e["g"] - 1
            haslock = cfg["feat"]["lock"] and cfg["intr"][g]["feat"]["lock"]
            hold = 1 if (not cfg["feat"]["lock"]) else int(e["stb"][g] or (haslock and e["lock"][g]))
            a = (e["g"], tuple(e["cyc"]), hold)
            if abstr.setdefault(a, e["own2"]) != e["own2"]:
                if run.report(f"arbiter-table-abstraction:{tr['key']}",
                              f"next owner depends on more than (owner, requests, hold): {a}",
                              {"cfg": cfg, "entry": e}):
                    n_bad += 1
        tr["abstr"] = abstr
        run.count(len(tab))
        for k in tab:
            run.distinct(("table", tr["key"], k), nontrivial=any(k[1]))
    return n_bad


def impl_liveness(run, traces, prop):
    """Hand each extracted abstract table to TLC and model-check NoStarvation on it."""
    docs = []
    for tr in traces:
        n = tr["cfg"]["n"]
        if n < 2:
            continue
        full = all((g, tuple((m >> k) & 1 for k in range(n)), h) in tr["abstr"]
                   for g in range(1, n + 1) for m in range(2 ** n) for h in (0, 1)
                   if tr["cfg"]["feat"]["lock"] or h == 1)
        if not full:
            raise common.MachineryError(f"tour did not produce a complete table for {tr['key']}")
        nxt = [[[tr["abstr"].get((g, tuple((m >> k) & 1 for k in range(n)), h),
                                 tr["abstr"].get((g, tuple((m >> k) & 1 for k in range(n)), 1)))
                 for h in (0, 1)] for m in range(2 ** n)] for g in range(1, n + 1)]
        docs.append({"n": n, "haslock": tr["cfg"]["feat"]["lock"], "next": nxt, "key": tr["key"]})
    path = os.path.join(common.scratch(), "tables.json")
    with open(path, "w") as f:
        json.dump(docs, f)
    res = tlc.run("WbArbiterImpl_MC", IMPL_CFG, env={"TABLE_FILE": path}, timeout=900)
    tlc.require_ok(res, "WbArbiterImpl_MC")
    run.add_tlc(res, f"WbArbiterImpl_MC: NoStarvation/BoundedWait on {len(docs)} extracted tables")
    if not res.ok:
        tid = res.last_state.get("tid", "?")
        try:
            bad = docs[int(tid) - 1]
        except Exception:
            bad = {"key": "?"}
        run.report(f"arbiter-impl-unfair:{bad['key']}",
                   f"extracted arbiter table violates {res.violated} ({bad['key']})",
                   {"table": bad, "tlc": res.raw[-4000:]})
    return len(docs)


# ---------------------------------------------------------------------------------------
# the two checks
# ---------------------------------------------------------------------------------------
def report_failures(run, traces, fails, tag):
    for fl in fails:
        tr = traces[fl["trace"]]
        t = fl["t"]
        run.report(f"{tag}:{fl['err']}:{json.dumps(tr['cfg'], sort_keys=True)[:200]}",
                   f"arbiter trace rejected at step {t}, clause {fl['err']}",
                   {"kind": "arb-trace", "cfg": tr["cfg"], "stim": tr["stim"][:t], "failing_step": t,
                    "clause": fl["err"], "steps": tr["steps"][max(0, t - 4):t]})


def replay(path):
    with open(path) as f:
        doc = json.load(f)
    rp = doc["replay"]
    if rp.get("kind") != "arb-trace":
        print(f"replay file {path} carries no stimulus; finding was: {doc.get('what')}")
        return common.EXIT_MACHINERY
    tr = record((rp["cfg"], rp["stim"]))
    fails = tracecheck.validate("WbArbiter_Trace", "Arb", [tr])
    if fails:
        print(f"VIOLATION property={doc['property']} replay={path}\n  what: still rejected at step {fails[0]['t']}, "
              f"clause {fails[0]['err']}")
        return common.EXIT_VIOLATION
    print(f"replay of {path}: accepted by the specification on this tree ({len(tr['steps'])} steps)")
    return common.EXIT_OK


def main(prop, tier):
    run = Run(prop, tier)
    thorough = tier == "thorough"
    run.cov["rule"] = (
        "leg A: TLC explores WbArbiter_MC (every configuration key x every owner x every input "
        "vector); leg B: every exported transition (owner, cyc/stb/lock vectors) is taken on the "
        "real wishbone.Arbiter by an edge tour and the recorded cycles are validated by TLC against "
        "WbArbiter.tla; leg C: seeded random configurations (1-8 initiators, widths 8-64, all "
        "feature subsets) under hostile schedules, validated the same way. A case is one "
        "(configuration, owner, input vector) cycle; non-trivial = at least one initiator asserts cyc.")
    run.assumptions += ["Amaranth's Python simulator is the semantics of the elaborated design",
                        "the owner is observed behaviourally (distinct addresses, acknowledge routing)"]
    # ---- leg A
    if prop == "C08":
        model_check(run, [(3, "rich"), (4, "poor")] if thorough else [(2, "rich"), (3, "poor")])
    else:
        model_check(run, [(4, "poor")] if thorough else [(3, "poor")])
        liveness(run, [2, 3, 4, 5] if thorough else [2, 3, 4])
    # ---- leg B: edge tours
    nmax = 4 if thorough else 3
    res, cfgs, edges = export_edges(nmax)
    run.add_tlc(res, f"WbArbiter_MC export MaxN={nmax}")
    jobs = []
    for key in sorted(edges):
        for salt in range(2 if thorough else 1):
            jobs.append((key, cfgs[key], sorted(edges[key]), salt))
    tours = pmap(tour_job, jobs)
    n_edges = sum(len(e) for e in edges.values())
    run.cov["tour"] = {"configurations": len(edges), "edges_exported": n_edges,
                       "cycles_walked": sum(t["walk_len"] for t in tours),
                       "edges_not_reached": sum(t["edges_left"] for t in tours)}
    if any(t["edges_left"] for t in tours):
        raise common.MachineryError("edge tour could not reach some exported transitions")
    fails = tracecheck.validate("WbArbiter_Trace", "Arb", tours, run, "tour traces (leg B)")
    report_failures(run, tours, fails, "tour")
    for t in tours:
        run.count(len(t["steps"]))
    failed = {f["trace"] for f in fails}
    good = [t for k, t in enumerate(tours) if k not in failed]
    if prop == "C09":
        check_tables(run, good, prop)
        impl_liveness(run, [t for t in good if t["cfg"]["n"] >= 2], prop)
        # entry-by-entry comparison with ExactSuccessor is what the trace validation did
    else:
        for t in good:
            for e in t["table"]:
                run.distinct(("edge", t["key"], e["g"], e["cyc"], e["stb"], e["lock"]),
                             nontrivial=any(e["cyc"]))
    run.sample({"tour_cfg": tours[-1]["cfg"], "first_steps": tours[-1]["steps"][:2]})
    big_n(run, (5, 6, 7, 8) if thorough else (5, 6))
    # ---- leg C: random real-size configurations
    r = rng("arb-random", prop)
    ntr, length = (600, 400) if thorough else (96, 250)
    jobs = []
    for k in range(ntr):
        cfg = random_cfg(r)
        jobs.append((cfg, list(random_schedule(r, cfg, length))))
    traces = pmap(record, jobs)
    for tr in traces:
        if tr.get("violation"):
            run.report(tr["violation"][0], tr["violation"][1], {"kind": "arbiter-build", "cfg": tr["cfg"]})
    traces = [tr for tr in traces if not tr.get("violation")]
    fails = tracecheck.validate("WbArbiter_Trace", "Arb", traces, run, "random traces (leg C)")
    report_failures(run, traces, fails, "random")
    for tr in traces:
        run.count(len(tr["steps"]))
        for s in tr["steps"][:50]:
            run.distinct(("rnd", json.dumps(s["i"], sort_keys=True)),
                         nontrivial=any(x["cyc"] for x in s["i"]["intr"]))
    run.sample({"random_cfg": traces[0]["cfg"], "step": traces[0]["steps"][3]})
    run.cov["exhaustive"] = True
    run.cov["exhaustive_scope"] = (f"all transitions of WbArbiter_MC up to N={nmax} initiators "
                                   "(model and real design); random part is sampled")
    return run.finish()
