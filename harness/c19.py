"""C19: every accepted component elaborates, terminates, repeatably (specs/Lifecycle.tla).

The parameter space is the union of the configuration generators of all the other checks, so C19
tries to build exactly what C01-C18 build.  Per instance: build (classify a refusal as descriptive
iff it is a ValueError/TypeError whose innermost frame is a `raise` statement), convert to RTLIL as a
top level, simulate twice under one fixed random stimulus, convert again - four elaborations of ONE
instance - and fingerprint the metadata before, between and after."""
import hashlib
import json
import linecache
import signal
import traceback

from . import common, tracecheck
from .common import Run, rng
from .hw import pmap, simulate, raw

from amaranth.back import rtlil
from amaranth.lib import wiring

from . import csrmux, c06, c07, c10, c11, c12, c13, c14, c15, arbiter
from amaranth import Module
from amaranth_soc import csr, gpio, event
from amaranth_soc.csr import action
from amaranth_soc.memory import MemoryMap


class Timeout(Exception):
    pass


def _alarm(signum, frame):
    raise Timeout()


def descriptive(exc):
    """ValueError/TypeError raised by an explicit `raise` statement (not an accident inside an expression)."""
    if not isinstance(exc, (ValueError, TypeError)):
        return False
    tb = traceback.extract_tb(exc.__traceback__)
    if not tb:
        return False
    last = tb[-1]
    line = (last.line or linecache.getline(last.filename, last.lineno)).strip()
    # multi-line raise statements: look a few lines up
    if line.startswith("raise "):
        return True
    for back in range(1, 6):
        l = linecache.getline(last.filename, last.lineno - back).strip()
        if l.startswith("raise "):
            return True
        if l.endswith(":") or l == "":
            break
    return False


def fp(x):
    return hashlib.blake2b(x.encode() if isinstance(x, str) else x, digest_size=8).hexdigest()


def norm_rtlil(text):
    return "\n".join(l for l in text.splitlines() if "attribute \\src" not in l and "attribute \\generator" not in l)


def metadata(built):
    out = []
    for obj in built.get("meta", []):
        if isinstance(obj, MemoryMap):
            out.append([[str(ri.path), ri.start, ri.end, ri.width] for ri in obj.all_resources()])
            out.append([[str(n), s, e, q] for w, n, (s, e, q) in obj.windows()])
        elif isinstance(obj, event.EventMap):
            out.append([k for _, k in obj.sources()])
    return fp(json.dumps(out))


# ---- instances ---------------------------------------------------------------------------------
def _adapter_instance(name, ad, cfg):
    def thunk():
        b = ad.build(cfg)
        design, ins, outs = b[0], b[1], b[2]
        clocked = b[4] if len(b) > 4 else True
        meta = []
        for attr in ("bus", "wb_bus"):
            p = getattr(design, attr, None)
            if p is not None:
                try:
                    meta.append(p.memory_map)
                except AttributeError:
                    pass
        return {"design": design, "ins": ins, "outs": outs, "clocked": clocked, "meta": meta,
                "top": isinstance(design, wiring.Component)}
    return {"cls": name, "params": cfg, "thunk": thunk}


def instances(r, n):
    ads = [("csr.Multiplexer", csrmux.Adapter()), ("csr.Decoder", c06.Decoder()),
           ("csr.Decoder tree", c06.Tree()), ("wishbone.Decoder", c07.Adapter()),
           ("WishboneCSRBridge", c10.Bridge()), ("WishboneCSRBridge+Multiplexer", c10.BridgeOverMux("bridge")),
           ("csr.Register", None), ("csr.action", c12.Adapter()), ("event.Monitor", c13.Monitor()),
           ("csr.event.EventMonitor", c14.Adapter()), ("WishboneSRAM", c15.Adapter()),
           ("wishbone.Arbiter", None), ("gpio.Peripheral", None), ("csr.Bridge", None)]
    out = []
    for k in range(n):
        name, ad = ads[k % len(ads)]
        if name == "csr.Register":
            out.append(register_instance(r))
        elif name == "wishbone.Arbiter":
            cfg = arbiter.random_cfg(r)

            def thunk(cfg=cfg):
                d, ins, outs = arbiter.build(cfg)
                return {"design": d, "ins": ins, "outs": outs, "clocked": cfg["n"] > 1, "meta": [], "top": False}
            out.append({"cls": name, "params": cfg, "thunk": thunk})
        elif name == "gpio.Peripheral":
            cfg = {"pin_count": r.choice([1, 2, 4, 5, 9, 16]), "addr_width": r.choice([3, 4, 6, 8]),
                   "data_width": r.choice([8, 8, 16, 32]), "input_stages": r.choice([0, 1, 2, 3])}

            def thunk(cfg=cfg):
                d = gpio.Peripheral(**cfg)
                ins = {"addr": d.bus.addr, "r_stb": d.bus.r_stb, "w_stb": d.bus.w_stb, "w_data": d.bus.w_data}
                outs = {"r_data": d.bus.r_data, "alt": d.alt_mode}
                for k2, p in enumerate(d.pins):
                    ins[f"i{k2}"] = p.i
                    outs[f"o{k2}"] = p.o
                    outs[f"oe{k2}"] = p.oe
                return {"design": d, "ins": ins, "outs": outs, "clocked": True, "meta": [d.bus.memory_map], "top": True}
            out.append({"cls": name, "params": cfg, "thunk": thunk})
        elif name == "csr.Bridge":
            out.append(bridge_instance(r))
            if k % 3 == 0:
                out.append(tiny_wb_decoder(r))
        else:
            cfg = ad.random_cfg(r)
            out.append(_adapter_instance(name, ad, cfg))
            if name == "csr.Multiplexer":
                out.append(_adapter_instance(name, ad, high_mux_cfg(r)))
    for _ in range(n // 2):
        out.append(hostile_instance(r))
    out += fixed_instances()
    return out


def fixed_instances():
    """A small deterministic family of layouts known to be delicate (independent of the seed)."""
    ad = csrmux.Adapter()
    out = []
    for aw, base in ((4, 1), (8, 0x41), (11, 0x400), (13, 0x1001), (16, 0x8000), (16, 0xfff0)):
        for ov in (0, 1, None):
            # two adjacent 3-chunk registers, not naturally aligned: chunk aliasing is inherent
            regs = [{"start": base, "stop": base + 3, "width": 24, "r": 1, "w": 1},
                    {"start": base + 3, "stop": base + 6, "width": 20, "r": 1, "w": 1}]
            out.append(_adapter_instance("csr.Multiplexer", ad, {"dw": 8, "aw": aw, "al": 0, "regs": regs, "overlaps": ov}))
    # very wide address spaces: registers that alias in every small shadow, far apart; the work of an elaboration
    # must depend on the number of registers, not on the size of the address space
    for aw, far in ((40, 1 << 39), (32, (1 << 31) + 4), (48, (1 << 47) - 8)):
        for ov in (0, None):
            regs = [{"start": 0, "stop": 2, "width": 16, "r": 1, "w": 1},
                    {"start": far, "stop": far + 2, "width": 16, "r": 1, "w": 1}]
            out.append(_adapter_instance("csr.Multiplexer", ad, {"dw": 8, "aw": aw, "al": 0, "regs": regs, "overlaps": ov}))
    # access-mode asymmetry: more write-only than readable registers sharing a chunk
    for ov in (None, 0, 2):
        regs = [{"start": 0, "stop": 1, "width": 8, "r": 1, "w": 0}] + \
               [{"start": k, "stop": k + 1, "width": 8, "r": 0, "w": 1} for k in (1, 2, 3)] + \
               [{"start": 5, "stop": 7, "width": 9, "r": 0, "w": 1}]
        out.append(_adapter_instance("csr.Multiplexer", ad, {"dw": 8, "aw": 3, "al": 0, "regs": regs, "overlaps": ov}))
    # names the memory map keeps apart (C18: any parts, '0' versus 0) but that look alike once flattened
    for ops in ([{"scope": ["a"], "name": "b"}, {"scope": [], "name": "a__b"}],
                [{"scope": ["g", 0], "name": "r"}, {"scope": ["g", "0"], "name": "r"}],
                [{"scope": [1], "name": "x"}, {"scope": ["1"], "name": "x"}, {"scope": [], "name": "1__x"}],
                [{"scope": [], "name": "mux"}, {"scope": ["mux"], "name": "mux"}],
                # chains: the name a colliding path is moved to may itself be somebody's flattened path
                [{"scope": ["a"], "name": "b"}, {"scope": [], "name": "a__b"}, {"scope": ["a"], "name": "b__0"}],
                [{"scope": ["a"], "name": "b__0"}, {"scope": ["a"], "name": "b"}, {"scope": [], "name": "a__b"},
                 {"scope": [], "name": "a__b__0"}],
                [{"scope": [], "name": "mux"}, {"scope": [], "name": "mux__0"}, {"scope": ["mux"], "name": "0"}]):
        out.append(bridge_instance(None, {"aw": 5, "dw": 8, "ops": [dict(o, width=8, offset=None) for o in ops]}))
    for fields in ({"a": {"b": 4}, "a__b": 4}, {"a": [4, 4], "a__0": 4, "a__1": 2}, {"x": {"0": 3}, "y": 1, "x__0": 3},
                   {"a": {"b": 2, "b__0": 2}, "a__b": 2}, {"a__b__0": 1, "a": {"b": 2, "b__0": 2}, "a__b": 2}):
        out.append(named_register_instance(fields))
    return out


def named_register_instance(fields):
    def mk(t):
        if isinstance(t, dict):
            return {k: mk(v) for k, v in t.items()}
        if isinstance(t, list):
            return [mk(v) for v in t]
        return csr.Field(action.RW, t)

    def thunk():
        d = csr.Register(mk(fields), access="rw")
        e = d.element
        return {"design": d, "ins": {"r_stb": e.r_stb, "w_stb": e.w_stb, "w_data": e.w_data}, "outs": {"r_data": e.r_data},
                "clocked": True, "meta": [], "top": False}
    return {"cls": "csr.Register", "params": {"fields": fields}, "thunk": thunk}


def high_mux_cfg(r):
    """multiplexer layouts far from address 0 (wide address buses), incl. not naturally aligned ones"""
    aw = r.choice([10, 12, 16])
    dw = r.choice([8, 16, 32])
    base = r.randrange(1 << (aw - 1), (1 << aw) - 64)
    regs, at = [], base
    if at % 4 == 0 and r.random() < 0.7:
        at += r.choice([1, 2, 3])            # not naturally aligned: chunk aliasing is inherent
    for _ in range(r.randint(2, 4)):
        at += r.choice([0, 0, 0, 1, 3])
        size = r.choice([1, 2, 3, 3, 3, 5])
        acc = r.choice(["r", "w", "rw", "rw"])
        regs.append({"start": at, "stop": at + size, "width": size * dw - r.randint(0, dw - 1),
                     "r": int(acc != "w"), "w": int(acc != "r")})
        at += size
    return {"dw": dw, "aw": aw, "al": 0, "regs": regs, "overlaps": r.choice([None, 0, 0, 0, 1, 2])}


def hostile_instance(r):
    """Constructor arguments drawn from a wide set that includes documented-invalid and ill-typed
    values: whatever is accepted must elaborate, whatever is refused must be refused descriptively."""
    from amaranth_soc import wishbone
    from amaranth_soc.csr.wishbone import WishboneCSRBridge
    from amaranth_soc.wishbone.sram import WishboneSRAM
    from amaranth_soc.csr.event import EventMonitor
    ints = [-1, 0, 1, 2, 3, 7, 8, 12, 16, 24, 32, 64, 65, 128]
    odd = [None, "8", 8.0, True, (8,), -8]

    ill = []        # ill-TYPED draws (a str/float/tuple/None where an int, a str or an iterable is documented)

    def val(pool=ints, p_odd=0.15):
        v = r.choice(odd) if r.random() < p_odd else r.choice(pool)
        if not isinstance(v, int) and not (v is None and None in pool):
            ill.append(v)
        return v

    def cat(pool, bad):
        v = r.choice(pool)
        if any(v is b or (type(v) is type(b) and v == b) for b in bad):
            ill.append(v)
        return v
    kind = r.choice(["MemoryMap", "csr.Signature", "csr.Element.Signature", "wishbone.Signature", "wishbone.Decoder",
                     "wishbone.Arbiter", "WishboneSRAM", "csr.Decoder", "csr.Builder", "EventMonitor",
                     "gpio.Peripheral", "WishboneCSRBridge", "event.Source", "csr.action.RW", "csr.Multiplexer"])
    feats = cat([(), ("err",), ("lock", "cti"), ("bogus",), ("err", "rty", "stall", "lock", "cti", "bte"), "err", None], ["err", None])
    feats_ill = list(ill)
    ill.clear()
    P = {}
    if kind == "MemoryMap":
        P = dict(addr_width=val(), data_width=val(), alignment=val([-1, 0, 1, 2, 5, 40]))
        mk = lambda: MemoryMap(**P)
    elif kind == "csr.Signature":
        P = dict(addr_width=val(), data_width=val())
        mk = lambda: csr.Signature(**P).create()
    elif kind == "csr.Element.Signature":
        P = dict(width=val(), access=cat(["r", "w", "rw", "nc", "x", None, 3], [None, 3]))
        mk = lambda: csr.Element.Signature(**P).create()
    elif kind in ("wishbone.Signature", "wishbone.Decoder", "wishbone.Arbiter"):
        P = dict(addr_width=val(), data_width=val(), granularity=val(ints + [None, None]), features=feats)
        if kind == "wishbone.Signature":
            mk = lambda: wishbone.Signature(**P).create()
        elif kind == "wishbone.Decoder":
            P["alignment"] = val([-1, 0, 1, 3])
            mk = lambda: wishbone.Decoder(**P)
        else:
            mk = lambda: wishbone.Arbiter(**P)
    elif kind == "WishboneSRAM":
        P = dict(size=val([0, 1, 2, 3, 4, 8, 64, 100, 1024]), data_width=val(), granularity=val(ints + [None, None]),
                 writable=cat([True, False, None, 1], [None]), init=cat([(), [1, 2], [1 << 70], "ab", None], ["ab", None]))
        mk = lambda: WishboneSRAM(**P)
    elif kind == "csr.Decoder":
        P = dict(addr_width=val(), data_width=val(), alignment=val([-1, 0, 1, 3, 40]))
        mk = lambda: csr.Decoder(**P)
    elif kind == "csr.Builder":
        P = dict(addr_width=val(), data_width=val(), granularity=val())

        def mk():
            b = csr.Builder(**P)
            b.add("r", csr.Register({"f": csr.Field(action.RW, 8)}, access="rw"))
            return csr.Bridge(b.as_memory_map())
    elif kind == "EventMonitor":
        P = dict(n=r.choice([0, 1, 5, 9]), trigger=cat(["level", "rise", "fall", "edge", None], [None]),
                 data_width=val(), alignment=val([-1, 0, 1, 2, 9]))

        def mk():
            em = event.EventMap()
            for _ in range(P["n"]):
                em.add(event.Source())
            return EventMonitor(em, trigger=P["trigger"], data_width=P["data_width"], alignment=P["alignment"])
    elif kind == "gpio.Peripheral":
        P = dict(pin_count=val([-1, 0, 1, 2, 5, 16, 40]), addr_width=val([0, 1, 2, 3, 4, 8]), data_width=val(),
                 input_stages=val([-1, 0, 1, 2, 5]))
        mk = lambda: gpio.Peripheral(**P)
    elif kind == "WishboneCSRBridge":
        P = dict(csr_aw=val([1, 2, 3, 8]), csr_dw=val(), data_width=val(ints + [None, None]))

        def mk():
            cb = csr.Interface(addr_width=P["csr_aw"], data_width=P["csr_dw"])
            cb.memory_map = MemoryMap(addr_width=P["csr_aw"], data_width=P["csr_dw"])
            return WishboneCSRBridge(cb, data_width=P["data_width"])
    elif kind == "event.Source":
        P = dict(trigger=cat(["level", "rise", "fall", "both", 0, None], [0, None]))
        mk = lambda: event.Monitor(_one_source_map(P["trigger"]))
    elif kind == "csr.action.RW":
        P = dict(shape=val([0, 1, 8, 33, -3]), init=val([0, 1, 255, 256, -1, 1 << 40]))
        mk = lambda: action.RW(P["shape"], init=P["init"])
    else:
        P = dict(shadow_overlaps=val([-1, 0, 1, 2, 3, None, None]), aw=r.choice([2, 4]), dw=r.choice([8, 3]))

        def mk():
            mm = MemoryMap(addr_width=P["aw"], data_width=P["dw"])
            mm.add_resource(csrmux.MockReg(P["dw"] * 2, "rw"), name=("a",), size=2)
            mm.add_resource(csrmux.MockReg(P["dw"], "r"), name=("b",), size=1)
            return csr.Multiplexer(mm, shadow_overlaps=P["shadow_overlaps"])

    def thunk():
        d = mk()
        if not isinstance(d, wiring.Component):
            # plain interfaces / maps: nothing to elaborate; wrap in an empty module
            m = Module()
            return {"design": m, "ins": {}, "outs": {}, "clocked": False, "meta": [], "top": False}
        return {"design": d, "ins": {}, "outs": {}, "clocked": False, "meta": [], "top": True}
    uses_feats = kind in ("wishbone.Signature", "wishbone.Decoder", "wishbone.Arbiter")
    return {"cls": "hostile:" + kind, "params": {k: repr(v) for k, v in P.items()} | {"features": repr(feats)}, "thunk": thunk,
            "illtyped": bool(ill or (uses_feats and feats_ill))}


def _one_source_map(trigger):
    em = event.EventMap()
    em.add(event.Source(trigger=trigger))
    return em


def tiny_wb_decoder(r):
    """wishbone.Decoder with a zero-width address (a single word) over one subordinate."""
    from amaranth_soc import wishbone
    dw = r.choice([8, 16, 32])
    gran = r.choice([g for g in (8, 16, 32) if g <= dw])
    cfg = {"addr_width": 0, "data_width": dw, "granularity": gran}

    def thunk():
        dec = wishbone.Decoder(**cfg)
        sub = wishbone.Interface(addr_width=0, data_width=dw, granularity=gran, path=("sub",))
        sub.memory_map = MemoryMap(addr_width=max(1, (dw // gran).bit_length() - 1), data_width=gran)
        dec.add(sub)
        b = dec.bus
        ins = {s: getattr(b, s) for s in ("cyc", "stb", "we", "sel", "dat_w")}
        ins["s_ack"] = sub.ack
        ins["s_dat_r"] = sub.dat_r
        outs = {"ack": b.ack, "dat_r": b.dat_r, "s_cyc": sub.cyc, "s_stb": sub.stb}
        return {"design": dec, "ins": ins, "outs": outs, "clocked": False, "meta": [b.memory_map], "top": False}
    return {"cls": "wishbone.Decoder", "params": cfg, "thunk": thunk}


def register_instance(r):
    ad = c11.Adapter()
    cfg = ad.random_cfg(r)
    kinds = {"r": [action.R], "w": [action.W], "rw": [action.RW, action.RW1C, action.RW1S],
             "nc": [action.ResRAW0, action.ResRAWL, action.ResR0WA, action.ResR0W0]}

    def fields(t):
        if t["k"] == "leaf":
            return csr.Field(r2.choice(kinds[t["acc"]]), c11.shape_for(t))
        if t["k"] == "dict":
            return {k: fields(c) for k, c in zip(t["keys"], t["kids"])}
        return [fields(c) for c in t["kids"]]
    seed = r.getrandbits(30)
    r2 = rng("regfields", seed)

    def thunk():
        nonlocal r2
        r2 = rng("regfields", seed)
        reg = csr.Register(fields(cfg["tree"]), access=cfg["access"])
        e = reg.element
        ins, outs = {}, {}
        if e.access.readable():
            ins["r_stb"] = e.r_stb
            outs["r_data"] = e.r_data
        if e.access.writable():
            ins["w_stb"] = e.w_stb
            ins["w_data"] = e.w_data
        return {"design": reg, "ins": ins, "outs": outs, "clocked": True, "meta": [], "top": True}
    return {"cls": "csr.Register", "params": cfg, "thunk": thunk}


def bridge_instance(r, cfg=None):
    dw = r.choice([8, 16, 32]) if r else 8
    if cfg is None:
        cfg = {"aw": r.choice([4, 6, 8]), "dw": dw, "ops": []}
        for k in range(r.randint(1, 5)):
            cfg["ops"].append({"scope": r.choice([[], ["grp"], [3], ["grp", 1], ["a", "b"]]), "name": f"r{k}",
                               "width": r.choice([1, 8, 12, 16, 40]), "offset": None})

    def thunk():
        b = csr.Builder(addr_width=cfg["aw"], data_width=cfg["dw"])
        for op in cfg["ops"]:
            cms = [b.Cluster(s) if isinstance(s, str) else b.Index(s) for s in op["scope"]]
            for cm in cms:
                cm.__enter__()
            b.add(op["name"], csr.Register({"f": csr.Field(action.RW, op["width"])}, access="rw"))
            for cm in reversed(cms):
                cm.__exit__(None, None, None)
        d = csr.Bridge(b.as_memory_map())
        ins = {"addr": d.bus.addr, "r_stb": d.bus.r_stb, "w_stb": d.bus.w_stb, "w_data": d.bus.w_data}
        return {"design": d, "ins": ins, "outs": {"r_data": d.bus.r_data}, "clocked": True,
                "meta": [d.bus.memory_map], "top": True}
    return {"cls": "csr.Bridge", "params": cfg, "thunk": thunk}


# ---- the life cycle of one instance ----------------------------------------------------------------
def lifecycle(inst):
    steps = []

    def log(**kw):
        steps.append({"i": kw, "o": {}})
    signal.signal(signal.SIGALRM, _alarm)
    try:
        signal.alarm(60)
        built = inst["thunk"]()
        signal.alarm(0)
        log(op="build", outcome="built", exc="")
    except Timeout:
        log(op="build", outcome="internal", exc="Timeout")
        return steps
    except Exception as e:
        signal.alarm(0)
        # an ill-TYPED argument (a str where an int is documented ...) refused by the constructor with a
        # TypeError/ValueError is a refusal, whatever expression raised it: the statement is about
        # accepted parameters, and no dynamically typed library promises more for ill-typed ones
        ok = descriptive(e) or (inst.get("illtyped") and isinstance(e, (TypeError, ValueError)))
        log(op="build", outcome="refused" if ok else "internal", exc=f"{type(e).__name__}: {str(e)[:150]}")
        return steps
    design = built["design"]
    log(op="meta", meta=metadata(built))
    stim_r = rng("c19-stim", json.dumps(inst["params"], sort_keys=True, default=str))
    stim = [{k: stim_r.getrandbits(len(raw(s))) if len(raw(s)) else 0 for k, s in built["ins"].items()}
            for _ in range(16)]
    # "top": converted as a top-level component (port directions from its signature), then with
    # explicit ports, simulated twice, and converted again: up to five elaborations of one instance
    plan = ([("top", 1)] if built["top"] else []) + [("rtlil", 2), ("sim", 3), ("sim", 4), ("rtlil", 5)]
    if built["top"]:
        plan.append(("top", 6))
    for view, n in plan:
        try:
            signal.alarm(90)
            if view == "top":
                hw = fp(norm_rtlil(rtlil.convert(design)))
            elif view == "rtlil":
                ports = [raw(s) for s in list(built["ins"].values()) + list(built["outs"].values())]
                text = rtlil.convert(design, ports=ports)
                hw = fp(norm_rtlil(text))
            else:
                it = iter(stim)
                res = simulate(design, built["ins"], built["outs"], lambda obs: next(it, None),
                               clocked=built["clocked"])
                hw = fp(json.dumps([o for _, o in res], sort_keys=True, default=str))
            signal.alarm(0)
            log(op="elab", n=n, view=view, outcome="ok", hw=hw, exc="")
        except Timeout:
            log(op="elab", n=n, view=view, outcome="timeout", hw="", exc="Timeout")
            break
        except RecursionError as e:
            signal.alarm(0)
            tail = traceback.extract_tb(e.__traceback__)[-40:]
            own = sum(1 for f in tail if "amaranth_soc" in f.filename)
            if own * 2 >= len(tail):
                # the toolkit's own code recursing: non-termination
                log(op="elab", n=n, view=view, outcome="timeout", hw="", exc="RecursionError (unbounded recursion)")
            else:
                # Amaranth's recursive visitors running out of stack on a very deep expression
                log(op="elab", n=n, view=view, outcome="error", hw="",
                    exc="RecursionError-depth: expression nested too deeply for Amaranth's visitors")
            break
        except Exception as e:
            signal.alarm(0)
            log(op="elab", n=n, view=view, outcome="refused" if descriptive(e) else "error", hw="",
                exc=f"{type(e).__name__}: {str(e)[:150]}")
            if not descriptive(e) and view != "top":
                break
        log(op="meta", meta=metadata(built))
    # what the queries cannot show (e.g. a frozen flag): after all these elaborations the instance must
    # still accept exactly what a fresh twin of it accepts
    try:
        twin = inst["thunk"]()
        for used, fresh in zip(built.get("meta", []), twin.get("meta", [])):
            if isinstance(used, MemoryMap) and isinstance(fresh, MemoryMap):
                log(op="probe", same=int(_probe(used) == _probe(fresh)), what=str(_probe(fresh)))
    except Exception:
        pass
    return steps


def _probe(mm):
    from .memmap import Reg
    try:
        return ("ok",) + tuple(mm.add_resource(Reg(), name=("__probe__",), size=1))
    except Exception as e:
        return ("refused", type(e).__name__)


_INSTS = []


def _job(k):
    return lifecycle(_INSTS[k])      # instances hold closures: workers reach them through fork


SHADOW_CFG = """SPECIFICATION Spec
CONSTANTS MaxAddr = {n}
  Export = {export}
INVARIANT RoundTrip
INVARIANT NoSelfAlias
INVARIANT Saturation
INVARIANT Terminates
INVARIANT RefusedOnlyIfInherent
INVARIANT NeverRefusedWithoutLimit
INVARIANT Log
CHECK_DEADLOCK FALSE
"""


def white_box_shadow(run, tier):
    """specs/CsrShadow.tla: model-checked termination argument for the one place where the code loops;
    compared with the real (private) _Shadow only to report MODEL DRIFT - never a violation."""
    from . import tlc
    n = 9 if tier == "thorough" else 7
    res = tlc.run("CsrShadow", SHADOW_CFG.format(n=n, export="TRUE"), workers=4, timeout=1500)
    tlc.require_ok(res, "CsrShadow")
    run.add_tlc(res, f"CsrShadow (white box, MaxAddr={n}): RoundTrip, NoSelfAlias, Saturation, Terminates, RefusedOnlyIfInherent")
    info = {"model_ok": bool(res.ok), "layouts": 0, "drift": []}
    if not res.ok:
        info["model_error"] = (res.violated or str(res.errors))[:200]
    try:
        from amaranth_soc.csr.bus import Multiplexer
        for rec in res.edges("SHADOW"):
            sh = Multiplexer._Shadow(8, None if rec["lim"] < 0 else rec["lim"], name="wb")
            for rg in rec["lay"]:
                sh.add(range(rg["start"], rg["stop"]))
            try:
                sh.prepare()
                size = sh.size
            except ValueError:
                size = 0
            except RecursionError:
                size = -1
            info["layouts"] += 1
            if size != rec["size"] and len(info["drift"]) < 10:
                info["drift"].append({"layout": rec["lay"], "limit": rec["lim"], "model": rec["size"], "code": size})
    except Exception as e:           # private API moved: that is drift too
        info["drift"].append({"error": f"{type(e).__name__}: {e}"})
    run.cov["white_box_CsrShadow"] = info


def main(tier):
    run = Run("C19", tier, level="exploration")
    thorough = tier == "thorough"
    run.cov["rule"] = (
        "instances are drawn from the configuration generators of all other checks (multiplexer layouts incl. "
        "unaligned ones with every shadow-sharing limit, CSR decoders and trees, register field trees over the "
        "real field actions incl. signed/enum shapes, register bridges with cluster/index scopes, event monitors, "
        "CSR event monitors, Wishbone-CSR bridges, arbiters, SRAMs, GPIO, Wishbone decoders as in C07); each "
        "instance is built, converted to RTLIL as a top level, simulated twice under one random stimulus and "
        "converted again (four elaborations), with the metadata fingerprinted in between; TLC validates each "
        "recorded life cycle against Lifecycle.tla. distinct = distinct (class, parameters); all non-trivial.")
    run.assumptions += ["non-termination is observed as a RecursionError or a 90 s alarm",
                        "a refusal is descriptive iff it is a ValueError/TypeError whose innermost frame is a raise statement (for ill-typed arguments - a str where an int is documented - any TypeError/ValueError from the constructor counts)"]
    r = rng("c19")
    insts = instances(r, 1400 if thorough else 420)
    _INSTS[:] = insts
    results = pmap(_job, range(len(insts)))
    traces = [{"cfg": {"cls": i["cls"]}, "steps": s} for i, s in zip(insts, results)]
    fails = tracecheck.validate("Lifecycle_Trace", "Lc", traces, run, "life cycles")
    per_cls = {}
    for i in insts:
        per_cls[i["cls"]] = per_cls.get(i["cls"], 0) + 1
    for fl in fails:
        inst = insts[fl["trace"]]
        st = traces[fl["trace"]]["steps"][fl["t"] - 1]["i"]
        exc = st.get("exc", "")
        key = f"{inst['cls']}:{fl['err']}:{exc.split(':')[0]}"
        run.report(key, f"{inst['cls']}: {fl['err']} ({exc}) with parameters {json.dumps(inst['params'], default=str)[:300]}",
                   {"class": inst["cls"], "params": inst["params"], "steps": [s["i"] for s in traces[fl["trace"]]["steps"]]})
    refused = sum(1 for t in traces if t["steps"][0]["i"]["outcome"] == "refused")
    for i, t in zip(insts, traces):
        run.count(len(t["steps"]))
        run.distinct((i["cls"], json.dumps(i["params"], sort_keys=True, default=str)))
    run.cov["instances_per_class"] = per_cls
    run.cov["refused_descriptively"] = refused
    run.cov["elaborations"] = sum(1 for t in traces for s in t["steps"] if s["i"]["op"] == "elab")
    run.sample({"class": insts[0]["cls"], "params": insts[0]["params"], "life_cycle": [s["i"] for s in traces[0]["steps"]]})
    white_box_shadow(run, tier)
    return run.finish()


def replay(path):
    """The recorded instance is regenerated from the seed: the whole (short) check is re-run with the
    seed stored in the replay file name and the finding is looked up again."""
    import os
    import re
    with open(path) as f:
        doc = json.load(f)
    m = re.search(r"-(\d+)-\d+\.json$", os.path.basename(path))
    if m:
        os.environ["VERIF_SEED"] = m.group(1)
    print(f"re-running the check for the finding: {doc.get('what', '')[:200]}")
    return main("quick")
