from . import csrmux


def main(tier):
    return csrmux.main("C04", tier)
