"""Batch trace validation: traces recorded from the implementation -> TLC -> verdicts."""
import json
import os

from . import tlc
from .common import scratch, MachineryError

CFG = ("SPECIFICATION TraceSpec\nCHECK_DEADLOCK FALSE\n"
       "CONSTANTS TInit <- {p}Init\n  TStep <- {p}Step\n  TCheck <- {p}Check\n")

_n = [0]


def validate(module, prefix, traces, run=None, label=None, timeout=1200, max_bytes=24_000_000):
    """traces: list of {"cfg":..., "steps":[{"i":..., "o":...}, ...]} (plus free extra keys).
    Returns a list of failures {"trace": index into `traces`, "t": step (1-based), "err": clause}.
    Raises MachineryError when TLC did not account for every step of every trace."""
    failures = []
    batch, size, base = [], 0, 0
    batches = []
    for tr in traces:
        doc = {"cfg": tr["cfg"], "steps": tr["steps"]}
        s = len(json.dumps(doc, separators=(",", ":")))
        if batch and size + s > max_bytes:
            batches.append((base, batch))
            base += len(batch)
            batch, size = [], 0
        batch.append(doc)
        size += s
    if batch:
        batches.append((base, batch))
    for base, batch in batches:
        _n[0] += 1
        path = os.path.join(scratch(), f"traces{_n[0]}.json")
        with open(path, "w") as f:
            json.dump(batch, f, separators=(",", ":"))
        res = tlc.run(module, CFG.format(p=prefix), env={"TRACE_FILE": path}, timeout=timeout,
                      workers=4)
        tlc.require_ok(res, f"trace validation {module}")
        os.unlink(path)
        fails = res.edges("FAIL")
        expect = sum(len(tr["steps"]) + 1 for tr in batch)
        failed_tids = set()
        for fl in fails:
            failures.append({"trace": base + fl["tid"] - 1, "t": fl["t"], "err": fl["err"]})
            failed_tids.add(fl["tid"])
        # a failing chain stops right after the failing step
        for fl in fails:
            expect -= len(batch[fl["tid"] - 1]["steps"]) - fl["t"]
        if res.errors or res.distinct != expect:
            raise MachineryError(
                f"{module}: TLC accounted for {res.distinct} states, expected {expect}; "
                f"errors={res.errors[:3]}\n{res.raw[-2000:]}")
        if run is not None:
            run.add_tlc(res, label or f"trace validation {module}")
            run.traces(len(batch) - len(failed_tids))
    return failures
