"""Batch trace validation: traces recorded from the implementation -> TLC -> verdicts."""
import json
import os
import threading

from . import tlc
from .common import scratch, MachineryError

CFG = ("SPECIFICATION TraceSpec\nCHECK_DEADLOCK FALSE\n"
       "CONSTANTS TInit <- {p}Init\n  TStep <- {p}Step\n  TCheck <- {p}Check\n")

_n = [0]
_lock = threading.Lock()


def _clean(x):
    """TLC's JSON reader has no null: None -> "None" (only configuration records carry it)."""
    if x is None:
        return "None"
    if isinstance(x, dict):
        return {k: _clean(v) for k, v in x.items()}
    if isinstance(x, (list, tuple)):
        return [_clean(v) for v in x]
    return x


def validate(module, prefix, traces, run=None, label=None, timeout=1200, max_bytes=24_000_000,
             parallel=4):
    """traces: list of {"cfg":..., "steps":[{"i":..., "o":...}, ...]} (plus free extra keys).
    Returns a list of failures {"trace": index into `traces`, "t": step (1-based), "err": clause}.
    Raises MachineryError when TLC did not account for every step of every trace."""
    from concurrent.futures import ThreadPoolExecutor
    docs = [{"cfg": _clean(tr["cfg"]), "steps": tr["steps"]} for tr in traces]
    sizes = [len(json.dumps(d, separators=(",", ":"))) for d in docs]
    total = sum(sizes)
    limit = min(max_bytes, max(1_500_000, total // parallel + 1))
    batches, batch, size, base = [], [], 0, 0
    for d, s in zip(docs, sizes):
        if batch and size + s > limit:
            batches.append((base, batch))
            base += len(batch)
            batch, size = [], 0
        batch.append(d)
        size += s
    if batch:
        batches.append((base, batch))

    def one(arg):
        base, batch = arg
        with _lock:
            _n[0] += 1
            path = os.path.join(scratch(), f"traces{_n[0]}.json")
        with open(path, "w") as f:
            json.dump(batch, f, separators=(",", ":"))
        res = tlc.run(module, CFG.format(p=prefix), env={"TRACE_FILE": path}, timeout=timeout,
                      workers=4, jvm=("-XX:+UseParallelGC", "-XX:ParallelGCThreads=4"))
        os.unlink(path)
        return base, batch, res

    failures = []
    with ThreadPoolExecutor(max_workers=parallel) as ex:
        results = list(ex.map(one, batches))
    for base, batch, res in results:
        tlc.require_ok(res, f"trace validation {module}")
        fails = res.edges("FAIL")
        expect = sum(len(tr["steps"]) + 1 for tr in batch)
        failed_tids = set()
        for fl in fails:
            failures.append({"trace": base + fl["tid"] - 1, "t": fl["t"], "err": fl["err"]})
            failed_tids.add(fl["tid"])
            expect -= len(batch[fl["tid"] - 1]["steps"]) - fl["t"]   # a failing chain stops there
        if res.errors or res.distinct != expect:
            raise MachineryError(
                f"{module}: TLC accounted for {res.distinct} states, expected {expect}; "
                f"errors={res.errors[:3]}\n{res.raw[-2000:]}")
        if run is not None:
            run.add_tlc(res, label or f"trace validation {module}")
            run.traces(len(batch) - len(failed_tids))
    return failures
