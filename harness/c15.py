"""C15: wishbone.WishboneSRAM against specs/WbSram*.tla."""
from . import common
from .common import bits, unbits
from . import hwcheck

from amaranth_soc.wishbone.sram import WishboneSRAM

MC = """SPECIFICATION Spec
CONSTANTS MaxRows = {rows}
  MaxG = {g}
  Export = {export}
VIEW View
ACTION_CONSTRAINT Props
CHECK_DEADLOCK FALSE
"""
INV = "INVARIANT ReadYourWrites\nINVARIANT ReadDataIsWord\nINVARIANT ReadOnlyInert\n"


def tobytes(v, n):
    return [(v >> (8 * k)) & 0xff for k in range(n)]


def frombytes(bs):
    return sum(b << (8 * k) for k, b in enumerate(bs))


class Adapter:
    module, prefix = "WbSram_Trace", "Sr"

    def mc_runs(self, tier):
        g = 3 if tier == "thorough" else 2
        return [("WbSram_MC", MC.format(rows=2, g=g, export="FALSE") + INV,
                 f"WbSram_MC rows<=2 granules<={g}: ack timing, read-your-writes, select exactness")]

    def vacuity(self, tier):
        return [("WbSram_MC", MC.format(rows=1, g=1, export="FALSE") + "PROPERTY NeverWritten\n",
                 "NeverWritten")]

    def export(self, tier):
        return ("WbSram_MC", MC.format(rows=2, g=2, export="TRUE"))

    def sizes(self, tier):
        return dict(random_traces=320, length=400, tour_salts=2) if tier == "thorough" else \
            dict(random_traces=80, length=250, tour_salts=1)

    def realize(self, key, cfg, r):
        return dict(cfg)

    def build(self, cfg):
        nb, gb, rows = cfg["nb"], cfg["gb"], cfg["rows"]
        words = [frombytes(w) for w in cfg["init"]]
        # "init" is documented as an iterable of integers: a list, a tuple, or a one-shot iterator / generator
        shape = (rows + nb + len(words) + sum(words)) % 4
        via_setter = (rows + len(words) + sum(words[:2])) % 3 == 0
        short = list(words)
        if via_setter:
            # an image shorter than the memory: the rows it does not cover are zero, whatever image was there before
            while short and short[-1] == 0:
                short.pop()
        init = [short, tuple(short), iter(short), (w for w in short)][shape] if via_setter else \
               [words, tuple(words), iter(words), (w for w in words)][shape]
        decoy = [(1 << (8 * nb)) - 1] * rows if (rows + sum(words)) % 4 else ()
        dut = WishboneSRAM(size=rows * nb // gb, data_width=8 * nb, granularity=8 * gb,
                           writable=bool(cfg["writable"]), init=decoy if via_setter else init)
        if via_setter:
            dut.init = init            # the documented way to load an image after construction
        # what the component reports about itself
        told = (dut.size, dut.writable, [int(v) for v in dut.init][:len(words)])
        if told != (rows * nb // gb, bool(cfg["writable"]), words):
            raise common.Violation("sram-attributes", f"WishboneSRAM reports size/writable/init {told}, built with "
                                   f"{(rows * nb // gb, bool(cfg['writable']), words)}")
        b = dut.wb_bus
        ins = {s: getattr(b, s) for s in ("cyc", "stb", "we", "adr", "sel", "dat_w")}
        outs = {"ack": b.ack, "dat_r": b.dat_r}
        # memory contents through the public memory map resource
        (mem, _, _), = list(b.memory_map.resources())
        data = mem.data

        def hook(ctx):
            return {"mem": [ctx.get(data[k]) for k in range(rows)]}
        return dut, ins, outs, hook, True

    def sim_input(self, cfg, i, r):
        return {"cyc": i["cyc"], "stb": i["stb"], "we": i["we"], "adr": i["adr"],
                "sel": unbits(i["sel"]), "dat_w": frombytes(i["dat_w"])}

    def to_step(self, cfg, i, o):
        nb = cfg["nb"]
        return {"i": {"cyc": i["cyc"], "stb": i["stb"], "we": i["we"], "adr": i["adr"],
                      "sel": bits(i["sel"], nb // cfg["gb"]), "dat_w": tobytes(i["dat_w"], nb)},
                "o": {"ack": o["ack"], "dat_r": tobytes(o["dat_r"], nb),
                      "mem": [tobytes(w, nb) for w in o["mem"]]}}

    def random_cfg(self, r):
        nb = r.choice([1, 2, 4, 8])
        gb = r.choice([g for g in (1, 2, 4, 8) if g <= nb])
        rows = r.choice([1, 2, 4, 8, 16])
        if rows * nb // gb < 2:
            rows = 2            # C15's domain starts at two granules (a 1-granule map is refused)
        init = [[r.getrandbits(8) for _ in range(nb)] for _ in range(rows)]
        if r.random() < 0.3:
            init = init[:r.randint(0, rows)]
            init += [[0] * nb for _ in range(rows - len(init))]
        return {"rows": rows, "nb": nb, "gb": gb, "writable": int(r.random() < 0.75), "init": init}

    def random_schedule(self, r, cfg, length):
        nb, rows, g = cfg["nb"], cfg["rows"], cfg["nb"] // cfg["gb"]
        p_hold = r.choice([0.0, 0.5, 0.8])
        cur = None
        for _ in range(length):
            if cur is None or r.random() >= p_hold:
                cur = {"cyc": int(r.random() < 0.8), "stb": int(r.random() < 0.8),
                       "we": r.randint(0, 1), "adr": r.randrange(rows),
                       "sel": r.getrandbits(g), "dat_w": r.getrandbits(8 * nb)}
            yield dict(cur)

    def nontrivial(self, s):
        return bool(s["i"]["cyc"] and s["i"]["stb"])


RULE = ("leg A: TLC explores WbSram_MC (geometries <=2 rows x <=2-3 granules, writable or not, two init "
        "images, every cyc/stb/we/adr/sel/dat_w vector every cycle); leg B: every exported transition "
        "taken on the real WishboneSRAM, the whole memory (read through the public memory-map resource) "
        "compared every cycle, validated by TLC; leg C: random geometries (1-16 rows, 8-64 bit, every "
        "granularity), random init images, sticky random schedules. non-trivial = cyc & stb.")


def main(tier):
    return hwcheck.check("C15", tier, Adapter(), RULE)


def replay(path):
    return hwcheck.replay(path, [Adapter()])
