"""Shared plumbing for every check: repo selection, seeds, scratch space, evidence,
known findings and violation reporting.

The working tree under test is $VERIF_REPO (default /repo); it is put first on sys.path so
that a scratch copy overrides the editable install when the machinery tests itself against
seeded changes.
"""
import atexit
import hashlib
import json
import os
import random
import shutil
import sys
import tempfile
import time

VERIF = os.path.dirname(os.path.dirname(os.path.abspath(__file__)))
REPO = os.environ.get("VERIF_REPO", "/repo")
if REPO not in sys.path:
    sys.path.insert(0, REPO)
os.environ.setdefault("PYTHONHASHSEED", "0")

SPECS = os.path.join(VERIF, "specs")
# evidence and replays describe /repo; when the machinery tests itself against a scratch copy
# (VERIF_REPO=...) they go next to that copy instead, so the committed evidence is never polluted
_SELF_TEST = os.path.realpath(REPO) != os.path.realpath("/repo")
EVIDENCE_DIR = os.path.join(REPO, ".verif-evidence") if _SELF_TEST else os.path.join(VERIF, "evidence")
REPLAY_DIR = os.path.join(VERIF, "replays")
KNOWN_FINDINGS = os.path.join(VERIF, "known_findings.json")

EXIT_OK, EXIT_VIOLATION, EXIT_MACHINERY = 0, 1, 2


def seed():
    try:
        return int(os.environ.get("VERIF_SEED", "0"))
    except ValueError:
        return 0


def rng(*salt):
    h = hashlib.sha256(repr((seed(),) + tuple(salt)).encode()).digest()
    return random.Random(int.from_bytes(h[:8], "big"))


_scratch = None


def scratch():
    """Per-run scratch directory outside /repo and /verif, removed at exit."""
    global _scratch
    if _scratch is None:
        _scratch = tempfile.mkdtemp(prefix="verif-")
        atexit.register(shutil.rmtree, _scratch, True)
    return _scratch


class MachineryError(Exception):
    """Something in the checking machinery (not in the code under test) went wrong."""


class Violation(Exception):
    """Raised by an adapter when building the component already contradicts the property (a step
    the property names itself, e.g. "by connecting an initiator interface")."""
    def __init__(self, key, what):
        super().__init__(what)
        self.key = key
        self.what = what


class Run:
    """Accumulates what one check run covered, reports violations and writes the evidence."""

    def __init__(self, prop, tier, level="model_checking"):
        self.prop = prop
        self.tier = tier
        self.level = level
        self.t0 = time.time()
        self.cov = {
            "states": 0, "transitions": 0, "traces_validated_against_impl": 0,
            "evaluations": 0, "distinct_nontrivial": 0, "rule": "", "samples": [],
            "exhaustive": False, "tlc_runs": [], "not_observable": [],
        }
        self._distinct = set()
        self.assumptions = []
        self.violations = 0
        self.known_hits = []
        self._known = load_known_findings().get(prop, [])
        self._vio_n = 0
        self._reported = set()

    # ---- counters -------------------------------------------------------------------
    def add_tlc(self, res, label):
        self.cov["states"] += res.distinct
        self.cov["transitions"] += res.generated
        self.cov["tlc_runs"].append({"label": label, "distinct": res.distinct,
                                     "generated": res.generated, "wall_s": round(res.wall, 2),
                                     "coverage_zero": res.coverage_zero[:10]})

    def count(self, n=1):
        self.cov["evaluations"] += n

    def distinct(self, key, nontrivial=True):
        if nontrivial:
            self._distinct.add(hashlib.blake2b(repr(key).encode(), digest_size=8).digest())

    def sample(self, s, limit=6):
        if len(self.cov["samples"]) < limit:
            self.cov["samples"].append(s)

    def traces(self, n):
        self.cov["traces_validated_against_impl"] += n

    def not_observable(self, what):
        if len(self.cov["not_observable"]) < 50:
            self.cov["not_observable"].append(what)
        self.cov["not_observable_count"] = self.cov.get("not_observable_count", 0) + 1

    # ---- findings -------------------------------------------------------------------
    def known(self, key):
        """Return the known-finding entry whose key equals `key`, if listed."""
        for k in self._known:
            if k.get("status") == "open" and k.get("key") == key:
                return k
        return None

    def report(self, key, what, replay_obj):
        """A property violation with identity `key`.  Listed -> KNOWN-FINDING, else VIOLATION."""
        k = self.known(key)
        if k is not None:
            if key not in self.known_hits:
                self.known_hits.append(key)
                print(f"KNOWN-FINDING: property={self.prop} {k.get('short', k['what'])}", flush=True)
            return False
        if key in self._reported:
            return True
        self._reported.add(key)
        self.violations += 1
        self._vio_n += 1
        os.makedirs(REPLAY_DIR, exist_ok=True)
        path = os.path.join(REPLAY_DIR, f"{self.prop}-{seed()}-{self._vio_n}.json")
        with open(path, "w") as f:
            json.dump({"property": self.prop, "key": key, "what": what, "replay": replay_obj},
                      f, indent=1, default=str)
        if self._vio_n <= 8:
            print(f"VIOLATION property={self.prop} replay={path}", flush=True)
            print(f"  what: {what}", flush=True)
        elif self._vio_n == 9:
            print("  (further violations are counted and written to replays/, not printed)",
                  flush=True)
        return True

    # ---- evidence -------------------------------------------------------------------
    def finish(self):
        self.cov["distinct_nontrivial"] = len(self._distinct)
        self.cov["known_findings_reproduced"] = list(self.known_hits)
        ev = {
            "property_id": self.prop, "tier": self.tier, "seed": seed(), "level": self.level,
            "coverage": self.cov, "assumptions": self.assumptions,
            "wall_s": round(time.time() - self.t0, 2), "violations": self.violations,
        }
        os.makedirs(EVIDENCE_DIR, exist_ok=True)
        with open(os.path.join(EVIDENCE_DIR, f"{self.prop}.json"), "w") as f:
            json.dump(ev, f, indent=1, default=str)
        print(f"{self.prop} [{self.tier}] states={self.cov['states']} "
              f"transitions={self.cov['transitions']} "
              f"traces={self.cov['traces_validated_against_impl']} "
              f"evals={self.cov['evaluations']} distinct={self.cov['distinct_nontrivial']} "
              f"violations={self.violations} wall={ev['wall_s']}s", flush=True)
        return EXIT_VIOLATION if self.violations else EXIT_OK


def load_known_findings():
    try:
        with open(KNOWN_FINDINGS) as f:
            doc = json.load(f)
    except FileNotFoundError:
        return {}
    out = {}
    for e in doc.get("findings", []):
        out.setdefault(e["property"], []).append(e)
    return out


def bits(value, width):
    """Integer -> list of bits, LSB first (what the TLA+ library calls a bit vector)."""
    return [(value >> k) & 1 for k in range(width)]


def unbits(bs):
    return sum((b & 1) << k for k, b in enumerate(bs))


def poke_map(mm, k=0):
    """Read-only queries of a MemoryMap that a user (or an earlier elaboration) may make at ANY time - before the
    map is complete, before it is frozen - some of them abandoned after k % 3 items.  None of them may change what
    the map, or hardware generated from it later, does.  (They are not steps of the specification: a query is a
    stuttering step.)"""
    try:
        for q in (mm.all_resources, mm.windows, mm.window_patterns, mm.resources):
            it = iter(q())
            for _ in range(k % 3):
                next(it, None)
            del it
        if k % 2:
            list(mm.windows())
            list(mm.window_patterns())
    except Exception:
        pass
