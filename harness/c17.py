"""C17: csr.Builder against specs/CsrBuilder*.tla (layout defined by folding MemoryMap!add_resource)."""
import json

from . import common, tlc, tracecheck
from .common import Run, rng
from .hw import pmap
from .memmap import tag

from amaranth_soc import csr
from amaranth_soc.csr import action

MC = """SPECIFICATION Spec
CONSTANTS MaxRegs = {n}
  Geoms <- {geoms}
VIEW View
CONSTRAINT Bound
INVARIANT LayoutRule
INVARIANT NoSilentAdjust
PROPERTY FrozenAcceptsNothing
CHECK_DEADLOCK FALSE
"""


def make_reg(width):
    return csr.Register({"f": csr.Field(action.RW, width)}, access="rw")


def run_history(cfg, calls):
    """calls: spec call records (outcome fields are overwritten with what really happened)."""
    # "huge": the top 2^aw words of a 64-bit address space, every offset recorded relative to the base (the layout
    # rule is translation-invariant for a base that is a multiple of 2^aw; the history starts with an explicit offset)
    huge = cfg.get("huge", 0)
    base = ((1 << 64) - (1 << cfg["aw"])) if huge else 0
    ratio = cfg["dw"] // cfg["gran"]
    b = csr.Builder(addr_width=64 if huge else cfg["aw"], data_width=cfg["dw"], granularity=cfg["gran"])
    regs, rid, cms, steps = {}, {}, [], []
    # scope objects may be created long before they are entered, and in another scope (chans = [regs.Index(i) ...] at
    # top level, entered inside a cluster): a register is named by the scopes OPEN when it is added
    early = {}
    for k, c in enumerate(calls):
        if c.get("pre") and c["call"] == "enter" and c["bad"] == "none":
            p = c["part"]
            early[k] = b.Cluster(p[2:]) if p.startswith("s:") else b.Index(int(p[2:]))
    for k, c in enumerate(calls):
        c = dict(c, ok=1)
        c.pop("pre", None)
        o = {"resources": []}
        try:
            if c["call"] == "add":
                bad = c["bad"]
                if c["reg"] not in regs:
                    regs[c["reg"]] = make_reg(c["width"])
                    rid[id(regs[c["reg"]])] = c["reg"]
                c["width"] = regs[c["reg"]].element.width
                reg = object() if bad == "not_register" else regs[c["reg"]]
                name = {"name_empty": "", "name_none": None, "name_int": 3}.get(bad, c["name"][2:])
                kw = {}
                if c["offset"] >= 0 or bad in ("offset_neg", "offset_str"):
                    kw["offset"] = {"offset_neg": -4, "offset_str": "4"}.get(bad, c["offset"] + base * ratio)
                b.add(name, reg, **kw)
            elif c["call"] == "enter":
                p = c["part"]
                if k in early:
                    cm = early[k]
                elif c["bad"] == "none":
                    cm = b.Cluster(p[2:]) if p.startswith("s:") else b.Index(int(p[2:]))
                else:
                    cm = {"cluster_empty": lambda: b.Cluster(""), "cluster_int": lambda: b.Cluster(5),
                          "index_neg": lambda: b.Index(-1), "index_str": lambda: b.Index("0")}[c["bad"]]()
                cm.__enter__()
                cms.append(cm)
            elif c["call"] == "exit":
                if c.get("exc"):
                    # an exception raised in the with-body travels through the scope and is caught outside
                    err = ValueError("body failed")
                    try:
                        cms.pop().__exit__(ValueError, err, None)
                    except ValueError:
                        pass
                else:
                    cms.pop().__exit__(None, None, None)
            elif c["call"] == "freeze":
                b.freeze()
            elif c["call"] == "as_memory_map":
                mm = b.as_memory_map()
                o["resources"] = [[rid[id(r)], tag(n), s - base, e - base] for r, n, (s, e) in mm.resources()]
        except Exception as e:
            c["ok"] = 0
            c["exc"] = type(e).__name__
        steps.append({"i": c, "o": o})
    while cms:                      # leave the scopes in order (not part of the history)
        try:
            cms.pop().__exit__(None, None, None)
        except Exception:
            pass
    return steps


def random_calls(r, cfg, length):
    ratio = cfg["dw"] // cfg["gran"]
    depth = 0
    nreg = 0
    out = []
    if r.random() < 0.3:
        # a scope name that occurs twice on the path (p > q > p): leaving the inner one must leave the outer alone
        p, q = r.sample(["s:a", "s:b", "s:grp", "i:0", "i:1", "i:7"], 2)
        for part in (p, q, p):
            out.append({"call": "enter", "part": part, "bad": "none"})
        for k in range(3):
            nreg += 1
            out.append({"call": "add", "reg": nreg, "name": "s:" + "xyz"[k], "offset": -1, "width": r.choice([1, 8, 17]), "bad": "none"})
            out.append({"call": "exit", "bad": "none", "exc": 0})
        nreg += 1
        out.append({"call": "add", "reg": nreg, "name": "s:top", "offset": -1, "width": 8, "bad": "none"})
    if r.random() < 0.25:
        # an index and the digit string that prints alike, side by side under one scope: two different paths
        k = r.choice([0, 1, 7])
        out.append({"call": "enter", "part": "s:grp", "bad": "none"})
        for part in r.sample([f"i:{k}", f"s:{k}"], 2):
            out.append({"call": "enter", "part": part, "bad": "none"})
            nreg += 1
            out.append({"call": "add", "reg": nreg, "name": "s:ctrl", "offset": -1, "width": 8, "bad": "none"})
            out.append({"call": "exit", "bad": "none", "exc": 0})
        out.append({"call": "exit", "bad": "none", "exc": 0})
    if r.random() < 0.15:
        # a register named like a cluster that already holds a register collides with it - also when an array index
        # that PRINTS like the name holds registers too (("1","x"), (1,"a"), ("1",): the layout must be refused)
        k = r.choice([0, 1, 7])
        scopes = [(f"s:{k}", "s:x"), (f"i:{k}", "s:a")]
        if r.random() < 0.5:
            scopes.reverse()
        outer = r.random() < 0.4
        if outer:
            out.append({"call": "enter", "part": "s:bank", "bad": "none"})
        for part, name in scopes:
            out.append({"call": "enter", "part": part, "bad": "none"})
            nreg += 1
            out.append({"call": "add", "reg": nreg, "name": name, "offset": -1, "width": 8, "bad": "none"})
            out.append({"call": "exit", "bad": "none", "exc": 0})
        nreg += 1
        out.append({"call": "add", "reg": nreg, "name": f"s:{k}", "offset": -1, "width": 8, "bad": "none"})
        if outer:
            out.append({"call": "exit", "bad": "none", "exc": 0})
        out.append({"call": "as_memory_map", "bad": "none"})
    if r.random() < 0.3:
        # an exception travels through one or two scopes; registers added afterwards are named by what is left
        p, q = r.sample(["s:a", "s:b", "s:grp", "i:0", "i:1", "i:7"], 2)
        out.append({"call": "enter", "part": q, "bad": "none"})
        out.append({"call": "enter", "part": p, "bad": "none"})
        nreg += 1
        out.append({"call": "add", "reg": nreg, "name": "s:in", "offset": -1, "width": 8, "bad": "none"})
        out.append({"call": "exit", "bad": "none", "exc": 1})
        nreg += 1
        out.append({"call": "add", "reg": nreg, "name": "s:mid", "offset": -1, "width": 9, "bad": "none"})
        out.append({"call": "exit", "bad": "none", "exc": r.randint(0, 1)})
        nreg += 1
        out.append({"call": "add", "reg": nreg, "name": "s:out", "offset": -1, "width": 1, "bad": "none"})
    for _ in range(length):
        x = r.random()
        if x < 0.55:
            if nreg and r.random() < 0.1:
                reg = r.randint(1, nreg)
            else:
                nreg += 1
                reg = nreg
            off = -1
            width = r.choice([0, 1, 7, 8, 9, 16, 17, 24, 32, 33, 40, 64, 65])
            if r.random() < 0.4:
                off = r.randrange(0, (1 << cfg["aw"]) * ratio, ratio if r.random() < 0.85 else 1)
                if r.random() < 0.4:
                    # near the top of the address space: the rounded (power-of-two) size decides whether it fits
                    words = max(1, -(-width // cfg["dw"]))
                    off = max(0, ((1 << cfg["aw"]) - words + r.choice([-2, -1, 0, 0, 1])) * ratio)
            bad = r.choice(["none"] * 14 + ["not_register", "name_empty", "name_none", "name_int", "offset_neg", "offset_str"])
            out.append({"call": "add", "reg": reg, "name": "s:" + r.choice(["a", "b", "c", "ctrl", "0", "x", "y", "z"]),
                        "offset": off, "width": width, "bad": bad})
        elif x < 0.70 and depth < 3:
            bad = r.choice(["none"] * 8 + ["cluster_empty", "cluster_int", "index_neg", "index_str"])
            part = r.choice(["s:a", "s:b", "s:grp", "i:0", "i:1", "i:7", "s:0", "s:1"])
            out.append({"call": "enter", "part": part, "bad": bad})
            if bad == "none":
                depth += 1
        elif x < 0.82 and depth > 0:
            out.append({"call": "exit", "bad": "none", "exc": int(r.random() < 0.35)})
            depth -= 1
        elif x < 0.86:
            out.append({"call": "freeze", "bad": "none"})
        else:
            out.append({"call": "as_memory_map", "bad": "none"})
    out.append({"call": "as_memory_map", "bad": "none"})
    if r.random() < 0.35:
        for c in out:
            if c["call"] == "enter" and c["bad"] == "none":
                c["pre"] = 1            # the scope object is created before the history starts, entered here
    return out


def _job(job):
    cfg, calls = job
    return {"cfg": cfg, "steps": run_history(cfg, calls)}


def main(tier):
    run = Run("C17", tier)
    thorough = tier == "thorough"
    run.cov["rule"] = (
        "leg A: TLC explores CsrBuilder_MC (geometries incl. granularity < data width, widths 0/9/17 bits, "
        "explicit and implicit offsets, cluster/index scopes, freeze) and checks the statement of C17 on the "
        "layout of every reachable builder state; leg B: TLC -simulate behaviours of that model, each followed "
        "by as_memory_map(), replayed on real csr.Builder objects; leg C: random geometries (aw 3-8, dw 8-64, "
        "granularity dividing it) and call sequences with invalid names/offsets; TLC validates every call's "
        "outcome and the resources() of every as_memory_map() against CsrBuilder.tla. non-trivial = add or "
        "as_memory_map.")
    geoms = "GeomsThorough" if thorough else "GeomsQuick"
    res = tlc.run("CsrBuilder_MC", MC.format(n=2, geoms=geoms), timeout=3000)
    tlc.require_ok(res, "CsrBuilder_MC")
    if not res.ok:
        raise common.MachineryError("CsrBuilder specification violates C17: " + str(res.errors) + res.raw[-2000:])
    run.add_tlc(res, f"CsrBuilder_MC MaxRegs=2 {geoms}: LayoutRule, NoSilentAdjust, FrozenAcceptsNothing")
    w = tlc.run("CsrBuilder_MC", MC.format(n=2, geoms="GeomsQuick") + "INVARIANT SomeLayoutFails\n", timeout=600)
    if w.violated != "SomeLayoutFails":
        raise common.MachineryError("vacuity witness SomeLayoutFails was not refuted")
    run.cov["vacuity_witnesses_refuted"] = ["SomeLayoutFails"]
    num, depth = (300, 12) if thorough else (100, 9)
    sres, behs = tlc.simulate_behaviours("CsrBuilder_MC", MC.format(n=3, geoms=geoms), num=num, depth=depth,
                                         wanted=("cfg", "lastin"), seed=common.seed() + 3)
    run.add_tlc(sres, "CsrBuilder_MC -simulate (behaviours for replay)")
    jobs = []
    for b in behs:
        if len(b) < 2:
            continue
        calls = []
        depth_now = 0
        for s in b[1:]:
            c = dict(s["lastin"])
            c.setdefault("bad", "none")
            calls.append(c)
            calls.append({"call": "as_memory_map", "bad": "none"}) if c["call"] == "add" else None
        # as_memory_map freezes the builder, so probe only at the end and once in the middle
        calls = [c for k, c in enumerate(calls) if c["call"] != "as_memory_map"]
        calls.append({"call": "as_memory_map", "bad": "none"})
        jobs.append((b[0]["cfg"], calls))
    nb = len(jobs)
    r = rng("builder")
    for _ in range(1200 if thorough else 300):
        dw = r.choice([8, 16, 32, 64])
        cfg = {"aw": r.choice([3, 4, 5, 8]), "dw": dw, "gran": r.choice([g for g in (4, 8, 16, 32, 64) if dw % g == 0 and g <= dw])}
        calls = random_calls(r, cfg, r.randint(3, 14))
        if r.random() < 0.15:
            cfg = dict(cfg, huge=1)
            calls = [{"call": "add", "reg": 900, "name": "s:anchor", "offset": 0, "width": r.choice([1, 8, 40]), "bad": "none"}] + calls
        jobs.append((cfg, calls))
    traces = pmap(_job, jobs)
    fails = tracecheck.validate("CsrBuilder_Trace", "Cb", traces, run, "builder histories (legs B and C)")
    for fl in fails:
        tr = traces[fl["trace"]]
        t = fl["t"]
        run.report(f"builder:{fl['err']}:{json.dumps(tr['steps'][t - 1]['i'], sort_keys=True)[:150]}",
                   f"csr.Builder history rejected at call {t}, clause {fl['err']}",
                   {"cfg": tr["cfg"], "history": [s["i"] for s in tr["steps"][:t]],
                    "observed": tr["steps"][t - 1]["o"], "clause": fl["err"]})
    for tr in traces:
        run.count(len(tr["steps"]))
        ck = json.dumps(tr["cfg"], sort_keys=True)
        for s in tr["steps"]:
            run.distinct((ck, json.dumps({k: v for k, v in s["i"].items() if k not in ("exc",)}, sort_keys=True)),
                         s["i"]["call"] in ("add", "as_memory_map"))
    run.cov["behaviours_replayed"] = nb
    run.sample({"cfg": traces[-1]["cfg"], "calls": [s["i"] for s in traces[-1]["steps"][:5]],
                "layout": traces[-1]["steps"][-1]["o"]})
    return run.finish()


def replay(path):
    with open(path) as f:
        doc = json.load(f)
    rp = doc["replay"]
    calls = [{k: v for k, v in c.items() if k not in ("ok", "exc")} for c in rp["history"]]
    tr = {"cfg": rp["cfg"], "steps": run_history(rp["cfg"], calls)}
    fails = tracecheck.validate("CsrBuilder_Trace", "Cb", [tr])
    if fails:
        print(f"VIOLATION property=C17 replay={path}\n  what: still rejected at call {fails[0]['t']}, clause {fails[0]['err']}")
        return common.EXIT_VIOLATION
    print(f"replay of {path}: accepted by the specification on this tree ({len(calls)} calls)")
    return common.EXIT_OK
