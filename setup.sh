#!/bin/sh
# Offline setup: nothing to build; verify that the tools the checks need are present and that
# every specification parses.
set -e
cd "$(dirname "$0")"
mkdir -p evidence replays
/venv/bin/python -c "import amaranth, amaranth_soc" 
for f in specs/*.tla; do
  case "$f" in *_Trace.tla|*Runner.tla) continue;; esac
done
java -cp /opt/veriftools/tla/tla2tools.jar:/opt/veriftools/tla/CommunityModules-deps.jar tla2sany.SANY specs/Util.tla >/dev/null
echo setup ok
