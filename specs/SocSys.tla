---- MODULE SocSys ----
(* A whole system, cycle by cycle: N Wishbone initiators -> wishbone.Arbiter -> wishbone.Decoder    *)
(*   -> { WishboneSRAM,  WishboneCSRBridge -> csr.Multiplexer -> registers (csr.action.RW / .R) }   *)
(* composed from the component specifications the listed properties are decided with               *)
(* (WbArbiter, WbSram, WbCsrBridge, CsrMux) - nothing is re-specified here except the wiring.       *)
(* One step = one rising clock edge of the whole system.  All words are bit vectors (LSB first),    *)
(* g lanes of cdw bits; U marks a bit the component specifications leave unconstrained.             *)
(*                                                                                                  *)
(* cfg = [n |-> initiators, lock |-> 0/1 (LOCK on arbiter, decoder and initiators),                 *)
(*        g |-> lanes per word (= bridge ratio), cdw |-> bits per lane (= CSR data width),          *)
(*        sram |-> [start |-> first word, rows, writable |-> 0/1, init |-> << word >>],             *)
(*        csr  |-> [start |-> first word, caw |-> CSR address width],                               *)
(*        regs |-> << [start, stop (CSR chunk addresses), width, r, w, kind |-> "rw" | "ro",         *)
(*                     init |-> bits(width)] >>]                                                     *)
(* st  = [arb, sram, br, mux : states of the component specifications; store |-> << bits >>]         *)
(* in  = [intr |-> << [cyc, stb, we, lock, adr, sel |-> bits(g), dat_w |-> bits(g*cdw)] >>,           *)
(*        ro   |-> << bits(width_k) >>  what the hardware side drives on read-only registers]        *)
(* obs = [intr |-> << [ack, dat_r |-> bits] >>, mem |-> << word >>, store |-> << bits >>]             *)
(*                                                                                                  *)
(* Domain: the initiators abide by the Wishbone protocol (a transfer is held unchanged until it is  *)
(* acknowledged or abandoned), which is what makes C07's environment assumption true of the         *)
(* subordinates here; nothing else is assumed.                                                      *)
EXTENDS WbArbiter, WbSram, WbCsrBridge, CsrMux

\* ---- configurations of the parts -------------------------------------------------------------------
SysF(cfg) == [err |-> 0, rty |-> 0, stall |-> 0, lock |-> cfg.lock, cti |-> 0, bte |-> 0]
ArbCfg(cfg) == [n |-> cfg.n, feat |-> SysF(cfg), intr |-> [k \in 1..cfg.n |-> [feat |-> SysF(cfg), ratio |-> 1]]]
\* the SRAM specification sees a word as nb "bytes" of which gb make a granule: here a byte is one bit
SramCfg(cfg) == [rows |-> cfg.sram.rows, nb |-> cfg.g * cfg.cdw, gb |-> cfg.cdw,
                 writable |-> cfg.sram.writable, init |-> cfg.sram.init]
BrCfg(cfg) == [n |-> cfg.g, caw |-> cfg.csr.caw]
SysMuxCfg(cfg) == [dw |-> cfg.cdw, regs |-> cfg.regs]

SysInit(cfg) == [arb |-> ArbInit(ArbCfg(cfg)), sram |-> SrInit(SramCfg(cfg)), br |-> BrInit(BrCfg(cfg)),
                 mux |-> MuxInit(SysMuxCfg(cfg)), store |-> [k \in 1..Len(cfg.regs) |-> cfg.regs[k].init]]

\* ---- the wiring ---------------------------------------------------------------------------------------
WordBits(cfg) == cfg.g * cfg.cdw
InSram(cfg, adr) == cfg.sram.start <= adr /\ adr < cfg.sram.start + cfg.sram.rows
CsrWords(cfg) == Pow2(cfg.csr.caw) \div cfg.g
InCsr(cfg, adr) == cfg.csr.start <= adr /\ adr < cfg.csr.start + CsrWords(cfg)
Mapped(cfg, adr) == InSram(cfg, adr) \/ InCsr(cfg, adr)

\* what the arbiter puts on the shared bus
ArbIn(cfg, in, tgt) ==
  [intr |-> [k \in 1..cfg.n |-> LET r == in.intr[k] IN
              [cyc |-> r.cyc, stb |-> r.stb, we |-> r.we, lock |-> r.lock, adr |-> r.adr, sel |-> r.sel,
               dat_w |-> r.dat_w, cti |-> 0, bte |-> 0]],
   tgt |-> tgt]
NoTgt(cfg) == [ack |-> 0, err |-> 0, rty |-> 0, stall |-> 0, dat_r |-> Zeros(WordBits(cfg))]
Shared(cfg, st, in) == ArbBus(ArbCfg(cfg), st.arb, ArbIn(cfg, in, NoTgt(cfg)))

\* what the decoder presents to its two subordinates
SramIn(cfg, b) == [cyc |-> IF InSram(cfg, b.adr) THEN b.cyc ELSE 0, stb |-> b.stb, we |-> b.we,
                   adr |-> IF InSram(cfg, b.adr) THEN b.adr - cfg.sram.start ELSE 0,
                   sel |-> b.sel, dat_w |-> b.dat_w]
Lanes(cfg, w) == [i \in 1..cfg.g |-> Slice(w, (i - 1) * cfg.cdw, cfg.cdw)]
BridgeIn(cfg, st, b) == [cyc |-> IF InCsr(cfg, b.adr) THEN b.cyc ELSE 0, stb |-> b.stb, we |-> b.we,
                         adr |-> IF InCsr(cfg, b.adr) THEN b.adr - cfg.csr.start ELSE 0,
                         sel |-> b.sel, dat_w |-> Lanes(cfg, b.dat_w),
                         csr_r_data |-> st.mux.rd]           \* the multiplexer's read data feeds the bridge
\* what the bridge presents to the multiplexer, and the registers' read values
SysMuxIn(cfg, st, in, b) ==
  LET c == BrCsr(BrCfg(cfg), st.br, BridgeIn(cfg, st, b)) IN
  [addr |-> c.addr, r_stb |-> c.r_stb, w_stb |-> c.w_stb,
   w_data |-> IF c.w_stb = 1 THEN c.w_data ELSE Zeros(cfg.cdw),
   rdata |-> [k \in 1..Len(cfg.regs) |-> IF cfg.regs[k].kind = "rw" THEN st.store[k] ELSE in.ro[k]]]

\* the responses travelling back up: both subordinates' acknowledges are registered (Moore)
BridgeAck(cfg, st) == Bit(st.br.phase = cfg.g + 1)
FlatLanes(cfg, ls) == [k \in 1..WordBits(cfg) |-> ls[((k - 1) \div cfg.cdw) + 1][((k - 1) % cfg.cdw) + 1]]
TgtResp(cfg, st, b) ==
  [ack |-> IF st.sram.ack = 1 \/ BridgeAck(cfg, st) = 1 THEN 1 ELSE 0, err |-> 0, rty |-> 0, stall |-> 0,
   dat_r |-> IF InSram(cfg, b.adr) THEN st.sram.rd
             ELSE IF InCsr(cfg, b.adr)
                  THEN (IF BridgeAck(cfg, st) = 1 THEN FlatLanes(cfg, st.br.datr) ELSE Unknowns(WordBits(cfg)))
             ELSE Zeros(WordBits(cfg))]
\* what initiator k sees
SysIntr(cfg, st, in, k) ==
  LET b == Shared(cfg, st, in)
      t == TgtResp(cfg, st, b) IN
  ArbIntr(ArbCfg(cfg), st.arb, ArbIn(cfg, in, t), k)

\* ---- one clock edge -----------------------------------------------------------------------------------
SysStep(cfg, st, in) ==
  LET b  == Shared(cfg, st, in)
      mi == SysMuxIn(cfg, st, in, b) IN
  [arb   |-> ArbStep(ArbCfg(cfg), st.arb, ArbIn(cfg, in, TgtResp(cfg, st, b))),
   sram  |-> SrStep(SramCfg(cfg), st.sram, SramIn(cfg, b)),
   br    |-> BrStep(BrCfg(cfg), st.br, BridgeIn(cfg, st, b)),
   mux   |-> MuxStep(SysMuxCfg(cfg), st.mux, mi),
   \* a csr.action.RW field takes element.w_data at the edge that ends its write strobe cycle
   store |-> [k \in 1..Len(cfg.regs) |->
                IF cfg.regs[k].kind = "rw" /\ ExpWStb(st.mux, k) THEN st.mux.wdat ELSE st.store[k]]]

\* ---- total check of one observed cycle ----------------------------------------------------------------
SysCheck(cfg, st, in, o) ==
  IF \E k \in 1..cfg.n : o.intr[k].ack # SysIntr(cfg, st, in, k).ack THEN "initiator ack"
  ELSE IF \E k \in 1..cfg.n : ~Matches(SysIntr(cfg, st, in, k).dat_r, o.intr[k].dat_r) THEN "initiator dat_r"
  ELSE IF o.mem # st.sram.mem THEN "SRAM contents"
  ELSE IF \E k \in 1..Len(cfg.regs) : cfg.regs[k].kind = "rw" /\ ~Matches(st.store[k], o.store[k]) THEN "register storage"
  ELSE "none"
====
