---- MODULE WbArbiter_Succ_MC ----
(* C09 for larger N: the next owner depends only on (owner, who asserts cyc, whether the owner    *)
(* holds its cycle).  This model enumerates exactly that abstraction for N initiators (N up to 8), *)
(* asserts the exact-successor statement on every transition and exports the transitions for an    *)
(* edge tour on the real arbiter with N initiators.                                                *)
EXTENDS WbArbiter, TLC, Json
CONSTANTS Ns, Export
VARIABLES n, lockf, grant, lastin
F(l) == [err |-> 0, rty |-> 0, stall |-> 0, lock |-> l, cti |-> 0, bte |-> 0]
cfg == [n |-> n, feat |-> F(lockf), intr |-> [k \in 1..n |-> [feat |-> F(lockf), ratio |-> 1]]]
\* hold = the owner asserts stb (when the arbiter has LOCK the owner may equally assert lock)
In(r, h) == [intr |-> [k \in 1..n |-> [cyc |-> r[k], stb |-> h, lock |-> 0, we |-> 0, adr |-> 0,
                                      dat_w |-> <<0>>, sel |-> <<0>>, cti |-> 0, bte |-> 0]],
             tgt  |-> [ack |-> 0, err |-> 0, rty |-> 0, stall |-> 0, dat_r |-> <<0>>]]
Init == n \in Ns /\ lockf \in {0, 1} /\ grant = 1 /\ lastin = <<>>
Next == \E r \in [1..n -> {0, 1}], h \in {0, 1} :
          /\ grant' = NextGrant(cfg, [grant |-> grant], In(r, h))
          /\ lastin' = [req |-> r, hold |-> h]
          /\ UNCHANGED <<n, lockf>>
Spec == Init /\ [][Next]_<<n, lockf, grant, lastin>>
View == <<n, lockf, grant>>
Dist(a, b) == (b + n - a) % n
Props ==
  LET r == lastin'.req  h == lastin'.hold  g == grant  g2 == grant'
      busy == r[g] = 1 /\ (lockf = 1 => h = 1) IN
  /\ Assert(IF busy THEN g2 = g
            ELSE IF \A k \in (1..n) \ {g} : r[k] = 0 THEN g2 = g
            ELSE g2 # g /\ r[g2] = 1 /\ \A k \in (1..n) \ {g} : r[k] = 1 => Dist(g, g2) <= Dist(g, k),
            <<"ExactSuccessor", n, lockf, g, r, h, g2>>)
  /\ Assert(GrantRel(n, g - 1, {k - 1 : k \in {j \in 1..n : r[j] = 1}}, busy, g2 - 1), <<"refines WbArbiterAbs!GrantRel", n, lockf, g, r, h, g2>>)
  /\ IF Export THEN PrintT(<<"EDGE", ToJson([n |-> n, lock |-> lockf, g |-> g, req |-> r, hold |-> h, g2 |-> g2])>>) ELSE TRUE
====
