---- MODULE WbCsrBridgeMux_MC ----
(* The last clauses of C10 need the bridge AND what it drives: "write side effects have taken     *)
(* place by the time the acknowledge is seen" and "multi-granule registers are accessed            *)
(* atomically".  Here the bridge specification drives the multiplexer specification (one register  *)
(* of N one-bit chunks at CSR addresses 0..N-1, N = ratio) whose value `val` the hardware side may  *)
(* change in EVERY cycle; a protocol-abiding Wishbone initiator issues full-select and partial      *)
(* transfers.  History variables: `atfirst` (the register value in the cycle its first chunk was    *)
(* read in this transfer).                                                                          *)
EXTENDS WbCsrBridge, CsrMux, Integers, TLC
CONSTANTS Ratios
VARIABLES n, br, mux, val, env, atfirst, lastin
vars == <<n, br, mux, val, env, atfirst, lastin>>
BC == [n |-> n, caw |-> 3]
MC == [dw |-> 1, regs |-> <<[start |-> 0, stop |-> n, width |-> n, r |-> 1, w |-> 1]>>]
Lane(b) == <<b>>
Sels == {Ones(n), Zeros(n)} \cup {[k \in 1..n |-> IF k = j THEN 1 ELSE 0] : j \in 1..n}
               \cup {[k \in 1..n |-> IF k <= j THEN 1 ELSE 0] : j \in 1..n}
Reqs == [cyc : {1}, stb : {1}, we : {0, 1}, adr : {0}, sel : Sels,
         dat_w : {[i \in 1..n |-> <<(i + p) % 2>>] : p \in {0, 1}}]
Idle == [cyc |-> 0, stb |-> 0, we |-> 0, adr |-> 0, sel |-> Zeros(n), dat_w |-> [i \in 1..n |-> <<0>>]]
Offers == IF Len(env) > 0 THEN {env[1]} ELSE Reqs \cup {Idle}
Init == /\ n \in Ratios /\ br = BrInit(BC) /\ mux = MuxInit(MC) /\ val \in BitVecs(n)
        /\ env = <<>> /\ atfirst = <<>> /\ lastin = <<>>
\* the hardware side either keeps the register or flips every bit of it (enough to expose tearing)
Next == \E w \in Offers, hwval \in {val, [k \in 1..n |-> 1 - val[k]]} :
          LET bi == [cyc |-> w.cyc, stb |-> w.stb, we |-> w.we, adr |-> w.adr, sel |-> w.sel, dat_w |-> w.dat_w,
                     csr_r_data |-> mux.rd]                      \* the multiplexer's read data feeds the bridge
              c  == BrCsr(BC, br, bi)
              mi == [addr |-> c.addr, r_stb |-> c.r_stb, w_stb |-> c.w_stb,
                     w_data |-> IF c.w_stb = 1 THEN c.w_data ELSE <<0>>, rdata |-> <<val>>]
              acked == br.phase = n + 1 IN
          /\ br' = BrStep(BC, br, bi)
          /\ mux' = MuxStep(MC, mux, mi)
          \* the register: written when its write strobe is high, otherwise the hardware may change it
          /\ val' = IF mux.wstb = 1 THEN mux.wdat ELSE hwval
          /\ env' = IF acked THEN <<>> ELSE IF Req(bi) THEN <<w>> ELSE <<>>
          /\ atfirst' = IF acked \/ ~Req(bi) THEN <<>> ELSE IF c.r_stb = 1 /\ c.addr = 0 THEN val ELSE atfirst
          /\ lastin' = bi
          /\ UNCHANGED n
Spec == Init /\ [][Next]_vars
View == <<n, br, mux, val, env, atfirst>>
AllSel(s) == \A k \in 1..n : s[k] = 1
\* with the acknowledge of a full-width read, the data is the register's value at ONE instant
\* (the cycle its first chunk was read), however the register changed meanwhile
MultiGranuleRegisterAtomic ==
  br.phase = n + 1 /\ Len(env) > 0 /\ env[1].we = 0 /\ AllSel(env[1].sel) =>
     [k \in 1..n |-> br.datr[k][1]] = atfirst
\* when the acknowledge of a full-width write is visible, the register holds the written value
\* or was already overwritten by the hardware AFTER having taken it: i.e. the write strobe has occurred
WriteEffectVisibleByAck ==
  [][(br.phase = n /\ Len(env) > 0 /\ env[1].we = 1 /\ AllSel(env[1].sel)) =>
        \* the cycle before the acknowledge becomes visible is at the latest the strobe cycle
        (mux.wstb = 1 /\ mux.wdat = [k \in 1..n |-> env[1].dat_w[k][1]]) \/ n = 0]_vars
NoUnknownInAck == br.phase = n + 1 /\ Len(env) > 0 /\ env[1].we = 0 =>
                    \A k \in 1..n : env[1].sel[k] = 1 => br.datr[k][1] # U \/ k > 1
====
