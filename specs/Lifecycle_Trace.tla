---- MODULE Lifecycle_Trace ----
EXTENDS Lifecycle, TraceRunner
====
