---- MODULE FieldAction ----
(* CSR field actions (property C12): R, W, RW, RW1C, RW1S and the reserved actions.          *)
(* cfg = [kind |-> "R"|"W"|"RW"|"RW1C"|"RW1S"|"Res", w |-> width, init |-> bit vector]        *)
(* st  = [storage |-> bit vector]                                                            *)
(* in  = [r_stb, w_stb, w_data (register side of the port), r_data, set, clear (hardware)] *)
(* out = [port_r_data, data, r_stb, w_stb, w_data]                                            *)
EXTENDS Util

NotV(v)    == [k \in 1..Len(v) |-> 1 - v[k]]
AndV(a, b) == [k \in 1..Len(a) |-> a[k] * b[k]]
OrV(a, b)  == [k \in 1..Len(a) |-> IF a[k] + b[k] > 0 THEN 1 ELSE 0]
Stored(cfg) == cfg.kind \in {"RW", "RW1C", "RW1S"}

FaInit(cfg) == [storage |-> IF Stored(cfg) THEN cfg.init ELSE Zeros(cfg.w)]

\* the ones the bus writes in this cycle
WMask(cfg, in) == IF in.w_stb = 1 THEN in.w_data ELSE Zeros(cfg.w)

FaStep(cfg, st, in) ==
  CASE cfg.kind = "RW"   -> [storage |-> IF in.w_stb = 1 THEN in.w_data ELSE st.storage]
    [] cfg.kind = "RW1C" -> [storage |-> OrV(AndV(st.storage, NotV(WMask(cfg, in))), in.set)]
    [] cfg.kind = "RW1S" -> [storage |-> OrV(AndV(st.storage, NotV(in.clear)), WMask(cfg, in))]
    [] OTHER             -> st

\* U-vectors: outputs the property does not speak about
FaOut(cfg, st, in) ==
  [port_r_data |-> IF Stored(cfg) THEN st.storage
                   ELSE IF cfg.kind = "R" THEN in.r_data ELSE Unknowns(cfg.w),
   data        |-> IF Stored(cfg) THEN st.storage ELSE Unknowns(cfg.w),
   r_stb       |-> IF cfg.kind = "R" THEN in.r_stb ELSE U,
   w_stb       |-> IF cfg.kind = "W" THEN in.w_stb ELSE U,
   w_data      |-> IF cfg.kind = "W" THEN in.w_data ELSE Unknowns(cfg.w)]

FaCheck(cfg, st, in, o) ==
  LET e == FaOut(cfg, st, in) IN
  IF ~Matches(e.port_r_data, o.port_r_data) THEN "port.r_data"
  ELSE IF ~Matches(e.data, o.data) THEN "data"
  ELSE IF ~Matches(<<e.r_stb>>, <<o.r_stb>>) THEN "r_stb"
  ELSE IF ~Matches(<<e.w_stb>>, <<o.w_stb>>) THEN "w_stb"
  ELSE IF ~Matches(e.w_data, o.w_data) THEN "w_data"
  ELSE "none"
====
