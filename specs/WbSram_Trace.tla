---- MODULE WbSram_Trace ----
EXTENDS WbSram, TraceRunner
====
