---- MODULE TraceRunner ----
(* Batch trace validation.  The file named by the environment variable TRACE_FILE holds a  *)
(* JSON array of traces [cfg |-> ..., steps |-> <<[i |-> inputs, o |-> observed], ...>>]   *)
(* recorded from the real implementation.  Every trace is an independent chain of TLC      *)
(* states (tid, t); at each step the component specification's total check operator        *)
(* TCheck names the first violated clause ("none" if the observation is allowed) and       *)
(* TStep advances the specification state.  Verdicts are total: a failing trace prints one *)
(* FAIL record and stops; the harness accepts a batch iff no FAIL was printed AND the      *)
(* number of distinct states equals the sum over traces of (length + 1), so a chain that   *)
(* silently stopped early cannot pass.                                                     *)
(* A trace module is just  EXTENDS X, TraceRunner ; its configuration file binds the three  *)
(* operator constants (TInit <- XInit ...).  Plain EXTENDS keeps `Traces` a cached constant; *)
(* with INSTANCE ... WITH, TLC re-parsed the JSON file at every evaluation.                 *)
EXTENDS Naturals, Sequences, TLC, Json, IOUtils
CONSTANTS TInit(_), TStep(_, _, _), TCheck(_, _, _, _)
VARIABLES tid, t, st, err

Traces == JsonDeserialize(IOEnv.TRACE_FILE)

TraceInit == /\ tid \in 1..Len(Traces)
             /\ t = 1
             /\ st = TInit(Traces[tid].cfg)
             /\ err = "none"

TraceStep == /\ err = "none"
             /\ t <= Len(Traces[tid].steps)
             /\ LET cfg == Traces[tid].cfg
                    s   == Traces[tid].steps[t]
                    e   == TCheck(cfg, st, s.i, s.o)
                IN /\ err' = e
                   /\ st' = TStep(cfg, st, s.i)
                   /\ IF e = "none" THEN TRUE
                      ELSE PrintT(<<"FAIL", ToJson([tid |-> tid, t |-> t, err |-> e])>>)
             /\ t' = t + 1
             /\ UNCHANGED tid

TraceSpec == TraceInit /\ [][TraceStep]_<<tid, t, st, err>>
====
