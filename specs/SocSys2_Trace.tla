---- MODULE SocSys2_Trace ----
EXTENDS SocSys2, TraceRunner
====
