---- MODULE WbCsrBridge_MC ----
(* Leg A for C10: every ratio in Ratios, every select mask, both directions, spaced and        *)
(* back-to-back transfers, cyc without stb, arbitrary CSR read data every cycle - under a      *)
(* protocol-abiding initiator (env).  History variables (age, issued) restate the property     *)
(* independently of the bridge specification's own bookkeeping.                                *)
EXTENDS WbCsrBridge, Integers, TLC
CONSTANTS Ratios
VARIABLES n, st, env, age, issued, rdhist, lastin
vars == <<n, st, env, age, issued, rdhist, lastin>>
cfg == [n |-> n, caw |-> 3]
Lanes == {<<0>>, <<1>>}
Idle == [cyc |-> 0, stb |-> 0, we |-> 0, adr |-> 0, sel |-> Zeros(n), dat_w |-> [i \in 1..n |-> <<0>>]]
Reqs == [cyc : {1}, stb : {1}, we : {0, 1}, adr : 0..1, sel : BitVecs(n), dat_w : [1..n -> Lanes]]
\* env = << the transfer currently presented (held until acknowledged) >>, or << >>
Held(e) == Len(e) > 0
Cur == env[1]
Offers == IF Held(env) THEN {Cur}                                    \* hold until acknowledged
          ELSE Reqs \cup {Idle, [Idle EXCEPT !.cyc = 1], [Idle EXCEPT !.stb = 1]}
Init == /\ n \in Ratios /\ st = BrInit(cfg) /\ env = <<>> /\ age = 0 /\ issued = <<>>
        /\ rdhist = <<>> /\ lastin = <<>>
Next == \E w \in Offers, rd \in Lanes :
          LET i == [cyc |-> w.cyc, stb |-> w.stb, we |-> w.we, adr |-> w.adr, sel |-> w.sel,
                    dat_w |-> w.dat_w, csr_r_data |-> rd]
              c == BrCsr(cfg, st, i)
              acked == st.phase = n + 1 IN
          /\ st' = BrStep(cfg, st, i)
          /\ env' = IF acked THEN <<>> ELSE IF Req(i) THEN <<w>> ELSE <<>>
          /\ age' = IF acked \/ ~Req(i) THEN 0 ELSE age + 1
          /\ issued' = IF acked \/ ~Req(i) THEN <<>>
                       ELSE IF c.r_stb = 1 \/ c.w_stb = 1 THEN Append(issued, [a |-> c.addr, r |-> c.r_stb, w |-> c.w_stb, d |-> c.w_data])
                       ELSE issued
          \* CSR read data seen in the cycle after each issued access
          /\ rdhist' = IF acked \/ ~Req(i) THEN <<>> ELSE Append(rdhist, rd)
          /\ lastin' = i
          /\ UNCHANGED n
Spec == Init /\ [][Next]_vars
View == <<n, st, env, age, issued, rdhist>>

\* the selected granules of the held transfer, ascending
RECURSIVE SelSeq(_, _)
SelSeq(sel, k) == IF k > Len(sel) THEN <<>>
                  ELSE (IF sel[k] = 1 THEN <<k - 1>> ELSE <<>>) \o SelSeq(sel, k + 1)
\* ---- C10 ----
\* acknowledge exactly ratio+1 cycles after the transfer starts (age counts presented cycles)
LatencyIsRatioPlusOne == (st.phase = n + 1) <=> (age = n + 1)
AtAck ==
  st.phase = n + 1 =>
    LET g == SelSeq(Cur.sel, 1) IN
    /\ Len(issued) = Len(g)                                  \* exactly one access per selected granule
    /\ \A k \in 1..Len(g) :
         /\ issued[k].a = Cur.adr * n + g[k]                 \* ascending, at adr*ratio + granule
         /\ issued[k].r = 1 - Cur.we /\ issued[k].w = Cur.we
         /\ (Cur.we = 1 => issued[k].d = Cur.dat_w[g[k] + 1])
    \* read: lane g carries the CSR read data returned for granule g (the cycle after its strobe)
    /\ (Cur.we = 0 => \A k \in 1..Len(g) : st.datr[g[k] + 1] = rdhist[g[k] + 2])
Props ==
  LET i == lastin'  c == BrCsr(cfg, st, i) IN
  /\ Assert(~Req(i) => c.r_stb = 0 /\ c.w_stb = 0, <<"NoCsrStrobeOutsideTransfer", n, st, i>>)
  /\ Assert(st.phase >= n => c.r_stb = 0 /\ c.w_stb = 0, <<"NoCsrStrobeAfterLastGranule", n, st, i>>)
  /\ Assert(st.phase = n + 1 => st'.phase = 0, <<"AckOneCycle", n>>)
NeverAcks == st.phase # n + 1      \* vacuity witness
====
