---- MODULE CsrReg_Trace ----
EXTENDS CsrReg, TraceRunner
====
