---- MODULE WbCsrBridge_Trace ----
EXTENDS WbCsrBridge, TraceRunner
====
