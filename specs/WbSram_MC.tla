---- MODULE WbSram_MC ----
(* Leg A for C15: small geometries, token data, EVERY input in every cycle (back-to-back      *)
(* transfers, stb held through the acknowledge, cyc or stb alone, all select masks).          *)
EXTENDS WbSram, TLC, Json
CONSTANTS MaxRows, MaxG, Export
VARIABLES key, st, shadow, pend, lastin
Vals == {0, 1}
Keys == [rows : {1, 2} \cap 1..MaxRows, g : 1..MaxG, writable : {0, 1}, img : {0, 1}]
cfg == [rows |-> key.rows, nb |-> key.g, gb |-> 1, writable |-> key.writable,
        init |-> [r \in 1..key.rows |-> [b \in 1..key.g |-> IF key.img = 1 THEN (r + b) % 2 ELSE 0]]]
Inputs == [cyc : {0, 1}, stb : {0, 1}, we : {0, 1}, adr : 0..(key.rows - 1),
           sel : BitVecs(key.g), dat_w : [1..key.g -> Vals]]
\* shadow: an independent "most recently written value" model of the memory, per byte
\* pend:   the read that was accepted in the previous cycle, if any: <<adr>> or <<>>
Init == /\ key \in Keys /\ st = SrInit(cfg) /\ shadow = cfg.init /\ pend = <<>> /\ lastin = <<>>
        /\ IF Export THEN PrintT(<<"CFG", ToJson([key |-> key, cfg |-> cfg, s0 |-> st])>>) ELSE TRUE
Next == \E i \in Inputs :
          /\ st' = SrStep(cfg, st, i)
          /\ shadow' = IF Accepted(st, i) /\ i.we = 1 /\ key.writable = 1
                       THEN [r \in 1..key.rows |-> [b \in 1..key.g |->
                               IF r = i.adr + 1 /\ i.sel[b] = 1 THEN i.dat_w[b] ELSE shadow[r][b]]]
                       ELSE shadow
          /\ pend' = IF Accepted(st, i) /\ i.we = 0 THEN <<i.adr>> ELSE <<>>
          /\ lastin' = i
          /\ UNCHANGED key
vars == <<key, st, shadow, pend, lastin>>
Spec == Init /\ [][Next]_vars
View == <<key, st, shadow, pend>>

\* ---- C15 ----
ReadYourWrites == st.mem = shadow                         \* contents = most recently written
ReadDataIsWord == pend # <<>> => st.ack = 1 /\ st.rd = shadow[pend[1] + 1]   \* (no write in between)
ReadOnlyInert  == key.writable = 0 => st.mem = cfg.init
Props ==
  LET i == lastin' IN
  \* acknowledge exactly one cycle after a transfer is presented, never twice, never spontaneously
  /\ Assert((st'.ack = 1) <=> (st.ack = 0 /\ i.cyc = 1 /\ i.stb = 1), <<"AckExactlyOneCycleAfter", key, st, i>>)
  /\ Assert(st.ack = 1 => st'.ack = 0, <<"NeverTwice", key>>)
  /\ Assert(st.ack = 1 => st'.mem = st.mem, <<"NoDoubleWrite", key, st, i>>)
  /\ Assert(i.we = 0 \/ i.cyc = 0 \/ i.stb = 0 => st'.mem = st.mem, <<"OnlyWritesWrite", key>>)
  /\ Assert(\A r \in 1..key.rows, b \in 1..key.g :
              st'.mem[r][b] # st.mem[r][b] => r = i.adr + 1 /\ i.sel[b] = 1 /\ st'.mem[r][b] = i.dat_w[b],
            <<"OnlySelectedGranules", key, st, i>>)
  /\ IF Export THEN PrintT(<<"EDGE", ToJson([key |-> key, s |-> st, i |-> i, t |-> st'])>>) ELSE TRUE
NeverWritten == [][st'.mem = st.mem]_vars      \* vacuity witness, must be refuted
====
