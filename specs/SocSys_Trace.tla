---- MODULE SocSys_Trace ----
EXTENDS SocSys, TraceRunner
====
