---- MODULE CsrMux_MC ----
(* Leg A for C04/C05.                                                                         *)
(*  Mode "all":  EVERY input vector in every cycle (initiators need not follow the protocol); *)
(*               strobe exactness and zero-when-idle are asserted on every transition.        *)
(*  Mode "conf": the environment follows the CSR protocol (one register at a time, ascending  *)
(*               chunks, transactions possibly abandoned, idle cycles, simultaneous read+write,*)
(*               unmapped addresses); history variables record, independently of the          *)
(*               specification's own bookkeeping, the register value at the first-chunk read  *)
(*               and the chunks written in this transaction; checked: the specification       *)
(*               leaves NO bit unknown on conforming runs, read data = slice of the value at  *)
(*               the first chunk, write data = concatenation of this transaction's chunks.    *)
(*  Family "curated": hand-picked layouts (unaligned, padded, zero-width, r/w/rw, adjacent);  *)
(*         "gen": all left-to-right layouts of <= 2 registers in an 8-address space.          *)
EXTENDS CsrMux, Integers, TLC, Json
CONSTANTS Mode, Family
VARIABLES key, st, env, hsnap, hbuf, lastin
vars == <<key, st, env, hsnap, hbuf, lastin>>

R(s, e, w, r, wr) == [start |-> s, stop |-> e, width |-> w, r |-> r, w |-> wr]
Curated ==
  { [dw |-> 1, regs |-> <<R(0, 2, 2, 1, 1), R(2, 3, 1, 1, 0), R(3, 5, 1, 0, 1)>>],
    [dw |-> 2, regs |-> <<R(0, 3, 5, 1, 1), R(3, 5, 3, 1, 1), R(6, 7, 0, 1, 1)>>],
    [dw |-> 1, regs |-> <<R(1, 4, 3, 1, 1), R(4, 5, 1, 1, 1), R(5, 8, 2, 1, 0)>>],
    [dw |-> 2, regs |-> <<R(0, 1, 2, 0, 1), R(1, 2, 1, 1, 0), R(2, 4, 4, 1, 1)>>],
    [dw |-> 1, regs |-> <<R(0, 4, 4, 1, 1), R(4, 8, 3, 1, 1)>>],
    [dw |-> 2, regs |-> <<R(2, 4, 3, 1, 0), R(4, 6, 4, 0, 1)>>],
    [dw |-> 1, regs |-> <<R(0, 3, 3, 1, 1), R(3, 5, 2, 1, 1)>>] }
\* generated: gap before, size, width selector (1: full, 2: one bit into the last chunk,
\* 3: last chunk is pure padding / zero width), access (1: r, 2: w, 3: rw)
Choice == [gap : 0..2, size : 1..3, wsel : 1..3, acc : 1..3]
WidthOf(c, dw) == CASE c.wsel = 1 -> c.size * dw
                    [] c.wsel = 2 -> (c.size - 1) * dw + 1
                    [] OTHER      -> IF c.size = 1 THEN 0 ELSE (c.size - 2) * dw + 1
RECURSIVE Place(_, _, _)
Place(cs, at, dw) ==
  IF cs = <<>> THEN <<>>
  ELSE LET c == Head(cs)  s == at + c.gap IN
       <<R(s, s + c.size, WidthOf(c, dw), IF c.acc # 2 THEN 1 ELSE 0, IF c.acc # 1 THEN 1 ELSE 0)>>
       \o Place(Tail(cs), s + c.size, dw)
Gen == {[dw |-> dw, regs |-> Place(cs, 0, dw)] : dw \in {1, 2}, cs \in UNION {[1..n -> Choice] : n \in 1..2}}
Keys == IF Family = "curated" THEN Curated
        ELSE {k \in Gen : k.regs[Len(k.regs)].stop <= 8}
cfg == key
AW == 3
NR == NRegs(cfg)

\* register values offered each cycle: two complementary patterns per register
Pat(w, p) == [b \in 1..w |-> (b + p) % 2]
RData == {[k \in 1..NR |-> Pat(cfg.regs[k].width, ps[k])] : ps \in [1..NR -> {0, 1}]}
AllInputs == {[addr |-> a, r_stb |-> rs, w_stb |-> ws, w_data |-> wd, rdata |-> rd] :
                a \in 0..(2^AW - 1), rs \in {0, 1}, ws \in {0, 1}, wd \in BitVecs(cfg.dw), rd \in RData}

\* ---- the protocol, from the initiator's point of view --------------------------------------
\* env = [reg, rlast, wlast]: register being accessed (0: none), last chunk read / written (-1: none)
NoEnv == [reg |-> 0, rlast |-> -1, wlast |-> -1]
Conforming(e, i) ==
  LET k == RegAt(cfg, i.addr)
      c == IF k = 0 THEN 0 ELSE i.addr - cfg.regs[k].start IN
  \/ i.r_stb = 0 /\ i.w_stb = 0                                   \* idle
  \/ k = 0                                                        \* unmapped
  \/ k # 0 /\ k # e.reg /\ c = 0                                  \* start on another register
  \/ k # 0 /\ k = e.reg
       /\ (i.r_stb = 1 => c = 0 \/ (e.rlast >= 0 /\ c > e.rlast))       \* ascending reads
       /\ (i.w_stb = 1 => c = 0 \/ (e.wlast >= 0 /\ c = e.wlast + 1))   \* consecutive writes
EnvStep(e, i) ==
  LET k == RegAt(cfg, i.addr)
      c == IF k = 0 THEN 0 ELSE i.addr - cfg.regs[k].start IN
  IF i.r_stb = 0 /\ i.w_stb = 0 THEN e
  ELSE IF k = 0 THEN NoEnv
  ELSE [reg |-> k,
        rlast |-> IF i.r_stb = 1 THEN c ELSE IF k = e.reg THEN e.rlast ELSE -1,
        wlast |-> IF i.w_stb = 1 THEN c ELSE IF k = e.reg THEN e.wlast ELSE -1]
Inputs == IF Mode = "all" THEN AllInputs ELSE {i \in AllInputs : Conforming(env, i)}

Init == /\ key \in Keys /\ st = MuxInit(cfg) /\ env = NoEnv /\ hsnap = <<>> /\ hbuf = <<>>
        /\ lastin = <<>>
Next == \E i \in Inputs :
          LET k == RegAt(cfg, i.addr)
              c == IF k = 0 THEN 0 ELSE i.addr - cfg.regs[k].start IN
          /\ st' = MuxStep(cfg, st, i)
          /\ env' = IF Mode = "all" THEN env ELSE EnvStep(env, i)
          \* history: value presented when the first chunk was read / chunks written since chunk 0
          /\ hsnap' = IF Mode = "all" THEN hsnap
                      ELSE IF k # 0 /\ i.r_stb = 1 /\ c = 0 THEN i.rdata[k]
                      ELSE IF EnvStep(env, i).rlast < 0 THEN <<>> ELSE hsnap
          /\ hbuf' = IF Mode = "all" THEN hbuf
                     ELSE IF k # 0 /\ i.w_stb = 1 /\ c = 0 THEN <<i.w_data>>
                     ELSE IF k # 0 /\ i.w_stb = 1 THEN Append(hbuf, i.w_data)
                     ELSE IF EnvStep(env, i).wlast < 0 THEN <<>> ELSE hbuf
          /\ lastin' = i
          /\ UNCHANGED key
Spec == Init /\ [][Next]_vars
View == <<key, st, env, hsnap, hbuf>>

\* ---- properties ---------------------------------------------------------------------------
NoU(v) == \A b \in 1..Len(v) : v[b] # U
\* C04/C05 on conforming runs: nothing is left unknown, i.e. the sharing limit cannot matter
ConformingRunsHaveNoUnknown == Mode = "conf" => NoU(st.rd) /\ NoU(st.wdat)
Props ==
  LET i == lastin'
      k == RegAt(cfg, i.addr)
      c == IF k = 0 THEN 0 ELSE i.addr - cfg.regs[k].start IN
  \* zero unless the cycle read a chunk of a readable register
  /\ Assert(~(i.r_stb = 1 /\ k # 0 /\ cfg.regs[k].r = 1) => st'.rd = Zeros(cfg.dw), <<"ZeroWhenIdle", key, i>>)
  \* write strobe one cycle after a write to the LAST address of a writable register, else none
  /\ Assert(st'.wstb = (IF i.w_stb = 1 /\ k # 0 /\ cfg.regs[k].w = 1 /\ i.addr = cfg.regs[k].stop - 1
                        THEN k ELSE 0), <<"WStbExact", key, i>>)
  /\ (Mode = "conf" =>
        \* read data one cycle after the strobe = slice of the value at the first-chunk cycle
        /\ Assert(i.r_stb = 1 /\ k # 0 /\ cfg.regs[k].r = 1 =>
                    st'.rd = ChunkOf(hsnap', c, cfg.dw), <<"SnapshotIsValueAtFirstChunk", key, st, i>>)
        \* write data at the strobe = concatenation of this transaction's chunks, truncated
        /\ Assert(st'.wstb # 0 =>
                    /\ Len(hbuf') = Size(cfg.regs[k])
                    /\ st'.wdat = Flat(hbuf', cfg.dw, cfg.regs[k].width),
                  <<"WriteDataIsThisTransaction", key, st, i, hbuf'>>))
\* vacuity witnesses (must be refuted)
NeverMultiChunkRead == [][~(lastin'.r_stb = 1 /\ RegAt(cfg, lastin'.addr) # 0 /\ env'.rlast >= 2)]_vars
NeverWStb == st.wstb = 0
====
