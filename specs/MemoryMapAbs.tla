---- MODULE MemoryMapAbs ----
(* The numeric core of one memory map (property C02), abstracted so that it can be verified for    *)
(* EVERY address-space size, any number of items and any alignments - beyond the small universe    *)
(* of MemoryMap_MC:                                                                                *)
(*   * TLAPS proves  ASpec => []Safe  and  ObsSpec => ASpec-steps (MemoryMapAbs_Proof.tla; tlapm,  *)
(*     SMT/Zenon/PTL back ends);                                                                   *)
(*   * Apalache checks the same inductive invariant symbolically over unbounded integers           *)
(*     (MemoryMapAbs_Apa.tla);                                                                     *)
(*   * TLC checks that MemoryMap.tla - the specification the real code is validated against -      *)
(*     REFINES this module for each of the three maps of MemoryMap_MC (AbsRefines there), and      *)
(*     trace validation checks every recorded step of the REAL MemoryMap, at real sizes, against   *)
(*     the same step relation (MemoryMap!MmCheck clause "abstract allocator step").                *)
(* An item is just its half-open range; names, kinds and the window tree do not matter here, nor   *)
(* do alignments: they restrict WHERE an item goes, safety only needs the refusal rules.           *)
EXTENDS MemoryMapAbsOps
CONSTANT Space                       \* number of addresses of the map (2^addr_width in the code)
ASSUME SpaceOK == Space \in Nat /\ Space >= 1
VARIABLES ritems,                    \* set of [start |-> Int, stop |-> Int]
          cur,                       \* the placement cursor
          frz                        \* frozen
avars == <<ritems, cur, frz>>

NoOverlap == \A a \in ritems : \A b \in ritems : a # b => Apart(a, b)
InSpace == \A a \in ritems : 0 <= a.start /\ a.start < a.stop /\ a.stop <= Space
TypeOK == ritems \subseteq ARange /\ cur \in Int /\ frz \in BOOLEAN
CursorOK == 0 <= cur
Safe == TypeOK /\ NoOverlap /\ InSpace /\ CursorOK

AInit == InitRel(ritems, cur, frz)

\* add_resource / add_window: accepted only if the map is not frozen, the range lies inside the
\* address space and meets no existing item.  The cursor moves to its end.
Add(s, n) == /\ CanAdd(Space, ritems, frz, s, n)
             /\ ritems' = ritems \cup {NewRange(s, n)}
             /\ cur' = s + n
             /\ UNCHANGED frz
\* align_to: the cursor only moves forward (also on a frozen map)
AlignTo(c2) == c2 >= cur /\ cur' = c2 /\ UNCHANGED <<ritems, frz>>
\* freeze; also: being used as a window of another map, or by a bridge
Freeze == frz' = TRUE /\ UNCHANGED <<ritems, cur>>

ANext == \/ \E s \in 0..Space : \E n \in 1..Space : Add(s, n)
         \/ \E c2 \in Int : AlignTo(c2)
         \/ Freeze
ASpec == AInit /\ [][ANext]_avars

\* the same step relation, phrased over the before/after values (what TLC and trace validation evaluate)
ANextObs == StepRel(Space, ritems, cur, frz, ritems', cur', frz')

\* what a user relies on, as action properties
FrozenMeansFixed == [][frz => ritems' = ritems /\ frz']_avars
OnlyGrows == [][ritems \subseteq ritems']_avars
====
