---- MODULE CsrBuilder_Trace ----
EXTENDS CsrBuilder, TraceRunner
====
