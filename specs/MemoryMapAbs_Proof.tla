---- MODULE MemoryMapAbs_Proof ----
(* TLAPS proofs about the abstract allocator of MemoryMapAbs.tla, for EVERY Space, any number of   *)
(* items and any placement policy:                                                                  *)
(*   Safety     ASpec => []Safe : never two overlapping items, never an item outside the space;    *)
(*   ObsIsNext  a step of the observational relation StepRel (the one TLC checks MemoryMap.tla     *)
(*              against, and trace validation checks the real code against) is an ANext step or    *)
(*              stutters - so everything that refines StepRel inherits Safety;                     *)
(*   Frozen     a frozen map never changes its items and stays frozen.                             *)
(* Checked by `./check PROOFS` (tlapm; SMT + Zenon + Isabelle + PTL back ends).                     *)
EXTENDS MemoryMapAbs, TLAPS

LEMMA InitSafe == AInit => Safe
  BY SpaceOK DEF AInit, InitRel, Safe, TypeOK, NoOverlap, InSpace, CursorOK

LEMMA StepSafe == Safe /\ [ANext]_avars => Safe'
<1> SUFFICES ASSUME Safe, [ANext]_avars PROVE Safe'
  OBVIOUS
<1>1. CASE UNCHANGED avars
  BY <1>1 DEF Safe, TypeOK, NoOverlap, InSpace, CursorOK, avars
<1>2. CASE \E s \in 0..Space : \E n \in 1..Space : Add(s, n)
  <2> PICK s \in 0..Space, n \in 1..Space : Add(s, n)
    BY <1>2
  <2> DEFINE new == NewRange(s, n)
  <2>0. s \in Int /\ n \in Int /\ s >= 0 /\ n >= 1 /\ s + n <= Space /\ s + n \in Int
    BY SpaceOK DEF Add, CanAdd
  <2>1. new \in ARange /\ new.start = s /\ new.stop = s + n
    BY <2>0 DEF ARange, NewRange
  <2>2. ritems' = ritems \cup {new} /\ cur' = s + n /\ frz' = frz
    BY DEF Add
  <2>3. TypeOK'
    BY <2>0, <2>1, <2>2 DEF Safe, TypeOK
  <2>4. InSpace'
    BY <2>0, <2>1, <2>2 DEF Safe, InSpace
  <2>5. \A it \in ritems : Apart(it, new)
    BY DEF Add, CanAdd
  <2>6. NoOverlap'
    BY <2>2, <2>5 DEF Safe, NoOverlap, Apart
  <2>7. CursorOK'
    BY <2>0, <2>2 DEF CursorOK
  <2> QED
    BY <2>3, <2>4, <2>6, <2>7 DEF Safe
<1>3. CASE \E c2 \in Int : AlignTo(c2)
  BY <1>3 DEF AlignTo, Safe, TypeOK, NoOverlap, InSpace, CursorOK
<1>4. CASE Freeze
  BY <1>4 DEF Freeze, Safe, TypeOK, NoOverlap, InSpace, CursorOK
<1> QED
  BY <1>1, <1>2, <1>3, <1>4 DEF ANext

THEOREM Safety == ASpec => []Safe
  BY InitSafe, StepSafe, PTL DEF ASpec

\* the observational step relation is no more permissive than ANext
LEMMA ObsIsNext == TypeOK /\ TypeOK' /\ ANextObs => [ANext]_avars
<1> SUFFICES ASSUME TypeOK, TypeOK', ANextObs PROVE [ANext]_avars
  OBVIOUS
<1>1. CASE ritems' = ritems /\ cur' = cur /\ frz' = frz
  BY <1>1 DEF avars
<1>2. CASE \E it \in ritems' \ ritems : /\ CanAdd(Space, ritems, frz, it.start, it.stop - it.start)
                                        /\ ritems' = ritems \cup {it} /\ cur' = it.stop /\ frz' = frz
  <2> PICK it \in ritems' \ ritems : /\ CanAdd(Space, ritems, frz, it.start, it.stop - it.start)
                                     /\ ritems' = ritems \cup {it} /\ cur' = it.stop /\ frz' = frz
    BY <1>2
  <2>1. it \in ARange
    BY DEF TypeOK
  <2> DEFINE s == it.start
  <2> DEFINE n == it.stop - it.start
  <2>2. s \in Int /\ n \in Int /\ it.stop \in Int
    BY <2>1 DEF ARange
  <2>3. s >= 0 /\ n >= 1 /\ s + n <= Space
    BY DEF CanAdd
  <2>4. s \in 0..Space /\ n \in 1..Space
    BY <2>2, <2>3, SpaceOK
  <2>5. NewRange(s, n) = it
    BY <2>1, <2>2 DEF NewRange, ARange
  <2>6. s + n = it.stop
    BY <2>2
  <2>7. Add(s, n)
    BY <2>5, <2>6 DEF Add
  <2> QED
    BY <2>4, <2>7 DEF ANext
<1>3. CASE ritems' = ritems /\ frz' = frz /\ cur' >= cur
  <2>1. cur' \in Int
    BY DEF TypeOK
  <2>2. AlignTo(cur')
    BY <1>3 DEF AlignTo
  <2> QED
    BY <2>1, <2>2 DEF ANext
<1>4. CASE ritems' = ritems /\ cur' = cur /\ frz' = TRUE
  BY <1>4 DEF ANext, Freeze
<1> QED
  BY <1>1, <1>2, <1>3, <1>4 DEF ANextObs, StepRel

THEOREM Frozen == ASpec => FrozenMeansFixed
<1>1. frz /\ [ANext]_avars => (ritems' = ritems /\ frz')
  BY DEF ANext, Add, CanAdd, AlignTo, Freeze, avars
<1> QED
  BY <1>1, PTL DEF ASpec, FrozenMeansFixed

THEOREM Grows == ASpec => OnlyGrows
<1>1. [ANext]_avars => ritems \subseteq ritems'
  BY DEF ANext, Add, AlignTo, Freeze, avars
<1> QED
  BY <1>1, PTL DEF ASpec, OnlyGrows
====
