---- MODULE CsrDecoder_MC ----
(* Leg A for C06 (decoder alone): every set of <= MaxSubs windows of 2 or 4 addresses at       *)
(* aligned, non-overlapping starts in an 8-address space (every order), every input vector.    *)
EXTENDS CsrDecoder, TLC, Json
CONSTANTS MaxSubs, Export
VARIABLES key, st, lastin
AW == 3
Win == {[aw |-> a, start |-> s] : a \in {1, 2}, s \in 0..7} 
Aligned(w) == w.start % Pow2(w.aw) = 0 /\ w.start + Pow2(w.aw) <= Pow2(AW)
Disjoint(a, b) == a.start + Pow2(a.aw) <= b.start \/ b.start + Pow2(b.aw) <= a.start
Keys == UNION {{s \in [1..n -> {w \in Win : Aligned(w)}] :
                  \A i, j \in 1..n : i # j => Disjoint(s[i], s[j])} : n \in 0..MaxSubs}
cfg == [aw |-> AW, dw |-> 1, subs |-> key]
NS == Len(key)
Inputs == [addr : 0..7, r_stb : {0, 1}, w_stb : {0, 1}, w_data : BitVecs(1), sub_r_data : [1..NS -> BitVecs(1)]]
\* what the specification says the decoder outputs (the canonical observation)
Out(i) == [stray |-> 0, r_data |-> [b \in 1..1 |-> IF \E k \in 1..NS : i.sub_r_data[k][b] = 1 THEN 1 ELSE 0],
           subs |-> [k \in 1..NS |-> [addr |-> i.addr % Pow2(key[k].aw), w_data |-> i.w_data,
                                       r_stb |-> IF k \in Selected(cfg, i.addr) THEN i.r_stb ELSE 0,
                                       w_stb |-> IF k \in Selected(cfg, i.addr) THEN i.w_stb ELSE 0]]]
Init == /\ key \in Keys /\ st = DecInit(cfg) /\ lastin = <<>>
        /\ IF Export THEN PrintT(<<"CFG", ToJson([key |-> key, cfg |-> cfg, s0 |-> st])>>) ELSE TRUE
Next == \E i \in Inputs : st' = st /\ lastin' = i /\ UNCHANGED key
Spec == Init /\ [][Next]_<<key, st, lastin>>
View == <<key, st>>
Props ==
  LET i == lastin'  o == Out(i)  sel == Selected(cfg, i.addr) IN
  /\ Assert(DecCheck(cfg, st, i, o) = "none", <<"canonical output rejected", key, i>>)
  /\ Assert(Cardinality(sel) <= 1, <<"AtMostOneSelected", key, i>>)
  /\ Assert(Cardinality({k \in 1..NS : o.subs[k].r_stb = 1 \/ o.subs[k].w_stb = 1}) <= 1, <<"AtMostOneSubStrobed", key, i>>)
  \* the pattern the generator emits (high bits equal) selects exactly the window owner
  /\ Assert(\A k \in 1..NS : (k \in sel) <=> (i.addr \div Pow2(key[k].aw) = key[k].start \div Pow2(key[k].aw)),
            <<"PatternIsOwnership", key, i>>)
  /\ Assert(sel = {} => \A k \in 1..NS : o.subs[k].r_stb = 0 /\ o.subs[k].w_stb = 0, <<"NoneWhenUnassigned", key, i>>)
  /\ IF Export THEN PrintT(<<"EDGE", ToJson([key |-> key, s |-> st, i |-> i, t |-> st'])>>) ELSE TRUE
====
