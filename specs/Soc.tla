---- MODULE Soc ----
(* Property C01: the memory map tells the truth about the hardware, end to end.                  *)
(* A hierarchy  Wishbone decoder -> {SRAM, Wishbone-CSR bridge -> CSR decoders -> leaves}  is     *)
(* described by its memory maps exactly as the toolkit reports them level by level:               *)
(*   cfg.maps[m] = [aw, dw, al, items |-> << item >>]   (item as in MemoryMap.tla; map 1 = root)  *)
(*   cfg.g       = granules per Wishbone word (data_width / granularity) = bridge ratio           *)
(*   cfg.cdw     = CSR data width in bits (= Wishbone granularity)                                *)
(*   cfg.top[k]  = "sram" | "bridge" : what the k-th root window (cfg.maps index) leads to         *)
(*   cfg.leaf[r] = [kind |-> "reg" | "mem", width, r, w, const (0/1), value |-> bits]  per resource *)
(*   cfg.all, cfg.decode = what the REAL root map's all_resources() / decode_address() say         *)
(* From the per-level data the specification computes the MAP VIEW with the statement's own       *)
(* arithmetic (MemoryMap!AllRes / Decode) - it must coincide with what the real root map says -   *)
(* and from the map view the expected outcome of every root bus transaction:                      *)
(*   in  = [adr, we, sel |-> bits(g), dat_w |-> << lane bits >>]                                   *)
(*   obs = [acked, latency, dat_r |-> << lane bits >>,                                             *)
(*          events |-> << [res, kind ("r"/"w"), rdata |-> bits, wdata |-> bits] >> in time order,  *)
(*          mem |-> << [res, row, before, after |-> << lane bits >>] >>, late |-> stray strobes]    *)
EXTENDS MemoryMap, CsrMux

SocMaps(cfg) == [m \in 1..Len(cfg.maps) |->
                   [aw |-> cfg.maps[m].aw, dw |-> cfg.maps[m].dw, al |-> cfg.maps[m].al, frozen |-> 1, cursor |-> 0,
                    items |-> SeqToSet(cfg.maps[m].items)]]
MapViewOK(cfg, maps) ==
  /\ cfg.all = [k \in 1..Len(AllRes(maps, 1)) |-> LET r == AllRes(maps, 1)[k] IN <<r.id, r.start, r.stop, r.width>>]
  /\ \A a \in 0..(Pow2(maps[1].aw) - 1) : cfg.decode[a + 1] = Decode(maps, 1, a)
SocInit(cfg) == LET maps == SocMaps(cfg) IN
                [maps |-> maps, all |-> AllRes(maps, 1), view |-> Bit(MapViewOK(cfg, maps))]
SocStep(cfg, st, in) == st

\* the root window containing word address adr, or 0
TopOf(cfg, st, adr) ==
  LET hit == {it \in st.maps[1].items : it.kind = "win" /\ it.start <= adr * cfg.g /\ adr * cfg.g < it.stop
                                        /\ (adr * cfg.g - it.start) < Pow2(st.maps[it.id].aw)} IN
  IF hit = {} THEN [kind |-> "none", id |-> 0, start |-> 0] ELSE CHOOSE it \in hit : TRUE
\* entry of the map view for resource r
Entry(st, r) == st.all[CHOOSE k \in 1..Len(st.all) : st.all[k].id = r]
Sel(in) == {g \in 0..(Len(in.sel) - 1) : in.sel[g + 1] = 1}
\* the leaf register (0: none) and chunk offset reached by granule g of word adr
LeafAt(cfg, st, adr, g) == Decode(st.maps, 1, adr * cfg.g + g)
Chunk(cfg, st, adr, g) == adr * cfg.g + g - Entry(st, LeafAt(cfg, st, adr, g)).start
LastChunk(st, r) == Entry(st, r).stop - Entry(st, r).start - 1

\* expected CSR-side events of a bridge transaction, in ascending granule (= time) order
RECURSIVE Events(_, _, _, _)
Events(cfg, st, in, g) ==
  IF g >= cfg.g THEN <<>>
  ELSE LET r == LeafAt(cfg, st, in.adr, g)
           rest == Events(cfg, st, in, g + 1) IN
       IF in.sel[g + 1] = 0 \/ r = 0 THEN rest
       ELSE IF in.we = 0 /\ cfg.leaf[r].r = 1 /\ Chunk(cfg, st, in.adr, g) = 0 THEN <<[res |-> r, kind |-> "r"]>> \o rest
       ELSE IF in.we = 1 /\ cfg.leaf[r].w = 1 /\ Chunk(cfg, st, in.adr, g) = LastChunk(st, r)
            THEN <<[res |-> r, kind |-> "w"]>> \o rest
       ELSE rest
\* read lane of granule g
ExpLane(cfg, st, in, o, g) ==
  LET r == LeafAt(cfg, st, in.adr, g) IN
  IF in.sel[g + 1] = 0 THEN Unknowns(cfg.cdw)
  ELSE IF r = 0 \/ cfg.leaf[r].r = 0 THEN Zeros(cfg.cdw)          \* unassigned or write-only: zero
  ELSE LET c == Chunk(cfg, st, in.adr, g)
           firsts == {k \in 1..Len(o.events) : o.events[k].res = r /\ o.events[k].kind = "r"} IN
       IF firsts # {} THEN ChunkOf(o.events[CHOOSE k \in firsts : TRUE].rdata, c, cfg.cdw)
       \* a later chunk without the first chunk in this transfer continues (or breaks) a CSR read
       \* transaction begun earlier: its data is the multiplexer's business (C04), not the map's -
       \* shadow chunks may even be shared with a register read in between
       ELSE Unknowns(cfg.cdw)
\* write data delivered with a write strobe, when this transaction wrote every chunk of the register
WholeWrite(cfg, st, in, r) ==
  \A c \in 0..LastChunk(st, r) : LET a == Entry(st, r).start + c IN
     a \div cfg.g = in.adr /\ in.sel[(a % cfg.g) + 1] = 1
ExpWData(cfg, st, in, r) ==
  LET s == Entry(st, r).start
      lanes == [c \in 1..(LastChunk(st, r) + 1) |-> in.dat_w[((s + c - 1) % cfg.g) + 1]] IN
  Flat(lanes, cfg.cdw, cfg.leaf[r].width)

SocCheck(cfg, st, in, o) ==
  LET top == TopOf(cfg, st, in.adr)
      kind == IF top.kind = "none" THEN "none" ELSE cfg.top[top.id] IN
  IF st.view = 0 THEN "map view: all_resources()/decode_address() of the root map"
  ELSE IF o.late # 0 THEN "strobe after the transfer"
  ELSE IF kind = "none" THEN
       (IF o.acked # 0 THEN "unassigned address acknowledged"
        ELSE IF o.events # <<>> \/ o.mem # <<>> THEN "side effect at an unassigned address" ELSE "none")
  ELSE IF kind = "sram" THEN
       LET res == Decode(st.maps, 1, in.adr * cfg.g)
           row == in.adr - top.start \div cfg.g IN
       IF o.acked # 1 THEN "SRAM access not acknowledged"
       ELSE IF o.events # <<>> THEN "register strobe during an SRAM access"
       ELSE IF Len(o.mem) # 1 \/ o.mem[1].res # res \/ o.mem[1].row # row THEN "SRAM word reached"
       ELSE IF in.we = 0 /\ (o.dat_r # o.mem[1].before \/ o.mem[1].after # o.mem[1].before) THEN "SRAM read"
       ELSE IF in.we = 1 /\ o.mem[1].after # [g \in 1..cfg.g |-> IF cfg.leaf[res].w = 1 /\ in.sel[g] = 1
                                                               THEN in.dat_w[g] ELSE o.mem[1].before[g]]
            THEN "SRAM write"
       ELSE "none"
  ELSE \* bridge
       LET ev == Events(cfg, st, in, 0) IN
       IF o.acked # 1 THEN "CSR bridge access not acknowledged"
       ELSE IF o.latency # cfg.g + 1 THEN "bridge latency"
       ELSE IF o.mem # <<>> THEN "memory changed during a CSR access"
       ELSE IF [k \in 1..Len(o.events) |-> [res |-> o.events[k].res, kind |-> o.events[k].kind]] # ev
            THEN "register strobes (which register, which chunk, order)"
       ELSE IF in.we = 0 /\ \E g \in 0..(cfg.g - 1) : ~Matches(ExpLane(cfg, st, in, o, g), o.dat_r[g + 1]) THEN "read data lane"
       ELSE IF in.we = 1 /\ \E k \in 1..Len(o.events) :
                 WholeWrite(cfg, st, in, o.events[k].res)
                 /\ o.events[k].wdata # ExpWData(cfg, st, in, o.events[k].res) THEN "register write data"
       ELSE "none"
====
