---- MODULE MemoryMapAbsOps ----
(* Constant-level operators of the abstract allocator (see MemoryMapAbs.tla): shared by the        *)
(* variable-based module that TLAPS and Apalache verify, by the TLC refinement check in            *)
(* MemoryMap_MC and by trace validation of the real code (clause "abstract allocator step" of      *)
(* MemoryMap!MmCheck), so that all four talk about the very same step relation.                    *)
EXTENDS Integers
\* (the type-annotation comments are for Apalache's type checker; TLC and TLAPS ignore them)
\* @type: Set({start: Int, stop: Int});
ARange == [start : Int, stop : Int]
\* @type: ({start: Int, stop: Int}, {start: Int, stop: Int}) => Bool;
Apart(a, b) == a.stop <= b.start \/ b.stop <= a.start
\* @type: (Int, Int) => {start: Int, stop: Int};
NewRange(s, n) == [start |-> s, stop |-> s + n]
\* [s, s + n) may be added to the item set `its` of a map of `sp` addresses with frozen flag `fz`
\* @type: (Int, Set({start: Int, stop: Int}), Bool, Int, Int) => Bool;
CanAdd(sp, its, fz, s, n) == /\ ~fz
                             /\ n >= 1 /\ s >= 0 /\ s + n <= sp
                             /\ \A it \in its : Apart(it, NewRange(s, n))
\* the step relation on explicit before / after values (stuttering, add, cursor move, freeze)
\* @type: (Int, Set({start: Int, stop: Int}), Int, Bool, Set({start: Int, stop: Int}), Int, Bool) => Bool;
StepRel(sp, i1, c1, f1, i2, c2, f2) ==
  \/ i2 = i1 /\ c2 = c1 /\ f2 = f1
  \/ \E it \in i2 \ i1 : /\ CanAdd(sp, i1, f1, it.start, it.stop - it.start)
                         /\ i2 = i1 \cup {it} /\ c2 = it.stop /\ f2 = f1
  \/ i2 = i1 /\ f2 = f1 /\ c2 >= c1
  \/ i2 = i1 /\ c2 = c1 /\ f2 = TRUE
\* @type: (Set({start: Int, stop: Int}), Int, Bool) => Bool;
InitRel(i, c, f) == i = {} /\ c = 0 /\ f = FALSE
====
