---- MODULE Periph_MC ----
(* ConstantInt over a small range: an accepted constant is representable in its width.            *)
EXTENDS Periph, TLC
VARIABLES v, w
Init == v \in -9..9 /\ w \in -1..6
Next == UNCHANGED <<v, w>>
Spec == Init /\ [][Next]_<<v, w>>
In == [kind |-> "int", value |-> v, width |-> w, signed |-> "none"]
\* accepted  =>  -2^(width-1) <= v < 2^width (two's complement if negative)
Representable == IntOK(In) => LET ww == IF w = -1 THEN BitsFor(v) ELSE w IN
                   IF v < 0 THEN -Pow2(ww - 1) <= v ELSE v < Pow2(ww)
Tight == w = -1 => (v > 0 => v >= Pow2(BitsFor(v) - 1)) /\ (v < -1 => -v > Pow2(BitsFor(v) - 2))
====
