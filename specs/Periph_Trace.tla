---- MODULE Periph_Trace ----
EXTENDS Periph, TraceRunner
====
