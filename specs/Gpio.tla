---- MODULE Gpio ----
(* gpio.Peripheral (property C16) = the builder's register layout (Mode, Input, Output, SetClr)  *)
(* + CsrMux + register packing + the pin logic.                                                  *)
(* cfg = [pins, dw, aw, stages, regs |-> << [start, stop] >> as reported by all_resources()]       *)
(* st  = [mux, mode |-> bits(2P), out |-> bits(P), sync |-> << bits(P) >> (stage 1..stages), lost]  *)
(* in  = [addr, r_stb, w_stb, w_data |-> bits(dw), i |-> bits(P) (pin input levels)]                *)
(* obs = [r_data |-> bits(dw), o, oe, alt |-> bits(P)]                                              *)
EXTENDS CsrBuilder, CsrMux

P(cfg) == cfg.pins
Widths(cfg) == <<2 * P(cfg), P(cfg), P(cfg), 2 * P(cfg)>>
\* the layout the memory map must report: the builder rule applied to Mode, Input, Output, SetClr
GpLayout(cfg) ==
  Layout([aw |-> cfg.aw, dw |-> cfg.dw, gran |-> 8],
         [regs |-> [k \in 1..4 |-> [id |-> k, name |-> <<"s:r">>  \o <<ToString(k)>>, offset |-> -1, width |-> Widths(cfg)[k]]],
          scope |-> <<>>, frozen |-> 0])
GpLayoutOK(cfg) ==
  LET l == GpLayout(cfg) IN
  /\ l.ok = 1
  /\ \A k \in 1..4 : \E it \in l.maps[1].items : it.id = k /\ it.start = cfg.regs[k].start /\ it.stop = cfg.regs[k].stop
GpMux(cfg) == [dw |-> cfg.dw,
               regs |-> [k \in 1..4 |-> [start |-> cfg.regs[k].start, stop |-> cfg.regs[k].stop, width |-> Widths(cfg)[k],
                                         r |-> IF k = 4 THEN 0 ELSE 1, w |-> IF k = 2 THEN 0 ELSE 1]]]
GpInit(cfg) == [mux |-> MuxInit(GpMux(cfg)), mode |-> Zeros(2 * P(cfg)), out |-> Zeros(P(cfg)),
                sync |-> [k \in 1..cfg.stages |-> Zeros(P(cfg))], lost |-> 0,
                lay |-> Bit(GpLayoutOK(cfg))]          \* computed once
\* what the Input register presents: the pin level `stages` cycles ago
InVal(cfg, st, in) == IF cfg.stages = 0 THEN in.i ELSE st.sync[cfg.stages]
GpHasU(v) == \E b \in 1..Len(v) : v[b] = U
ModeOf(st, n) == st.mode[2 * n - 1] + 2 * st.mode[2 * n]          \* pin n (1-based): 2-bit field, LSB first
GpStep(cfg, st, in) ==
  LET w == st.mux.wstb  d == st.mux.wdat
      bad == w # 0 /\ GpHasU(d) IN
  [mux  |-> MuxStep(GpMux(cfg), st.mux, [addr |-> in.addr, r_stb |-> in.r_stb, w_stb |-> in.w_stb, w_data |-> in.w_data,
                                          rdata |-> <<st.mode, InVal(cfg, st, in), st.out, <<>> >>]),
   mode |-> IF w = 1 /\ ~bad THEN d ELSE st.mode,
   out  |-> IF bad THEN st.out
            ELSE [n \in 1..P(cfg) |->
                    IF w = 4 /\ d[2 * n - 1] # d[2 * n] THEN d[2 * n - 1]      \* set (01) / clear (10); 00 and 11 leave it
                    ELSE IF w = 3 THEN d[n] ELSE st.out[n]],
   sync |-> [k \in 1..cfg.stages |-> IF k = 1 THEN in.i ELSE st.sync[k - 1]],
   lost |-> IF st.lost = 1 \/ bad THEN 1 ELSE 0,
   lay  |-> st.lay]
\* mode table: 0 input-only, 1 push-pull, 2 open-drain, 3 alternate
PinO(st, n)   == IF ModeOf(st, n) = 2 THEN 0 ELSE st.out[n]
PinOe(st, n)  == IF ModeOf(st, n) = 1 THEN 1 ELSE IF ModeOf(st, n) = 2 THEN 1 - st.out[n] ELSE 0
PinAlt(st, n) == IF ModeOf(st, n) = 3 THEN 1 ELSE 0
GpCheck(cfg, st, in, o) ==
  IF st.lay = 0 THEN "register layout"
  ELSE IF st.lost = 1 THEN "none"
  ELSE IF ~Matches(st.mux.rd, o.r_data) THEN "bus.r_data"
  ELSE IF \E n \in 1..P(cfg) : o.o[n] # PinO(st, n) THEN "pin.o"
  ELSE IF \E n \in 1..P(cfg) : o.oe[n] # PinOe(st, n) THEN "pin.oe"
  ELSE IF \E n \in 1..P(cfg) : o.alt[n] # PinAlt(st, n) THEN "alt_mode"
  ELSE "none"
====
