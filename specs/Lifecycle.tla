---- MODULE Lifecycle ----
(* Property C19: the life cycle of one component instance.                                      *)
(*   build      -> "built" | "refused" (descriptive ValueError/TypeError) | "internal" (anything *)
(*                 else, incl. a ValueError/TypeError that escaped from an ordinary expression)  *)
(*   elab(k)    -> "ok" with a fingerprint of the hardware | "error" | "timeout"                 *)
(*   meta       -> fingerprint of the memory map / event map metadata                            *)
(* hw and meta must be functions of (class, parameters) alone: every elaboration yields the      *)
(* hardware of the first one, and the metadata never changes.                                    *)
(* st = [built, hw |-> [top, rtlil, sim |-> "" or fingerprint], meta |-> "" or fingerprint]       *)
(* (three views of the hardware: RTLIL of a conversion as a top-level component with the port     *)
(*  directions of its signature, RTLIL with explicitly listed ports, and the outputs of a          *)
(*  simulation under a fixed random stimulus; each view is compared with its own first value)      *)
EXTENDS Util
LcInit(cfg) == [built |-> 0, hw |-> [top |-> "", rtlil |-> "", sim |-> ""], meta |-> ""]
LcStep(cfg, st, in) ==
  [built |-> st.built,
   hw    |-> IF in.op = "elab" /\ in.outcome = "ok" /\ st.hw[in.view] = ""
             THEN [st.hw EXCEPT ![in.view] = in.hw] ELSE st.hw,
   meta  |-> IF in.op = "meta" /\ st.meta = "" THEN in.meta ELSE st.meta]
LcCheck(cfg, st, in, o) ==
  CASE in.op = "build" -> IF in.outcome = "internal" THEN "build failed with an internal error" ELSE "none"
    [] in.op = "elab"  -> IF in.outcome = "timeout" THEN "elaboration does not terminate"
                          ELSE IF in.outcome = "refused" THEN "none"       \* descriptive refusal at elaboration
                          ELSE IF in.outcome # "ok" THEN (IF in.n <= 2 THEN "elaboration failed with an internal error"
                                                          ELSE "repeated elaboration failed")
                          ELSE IF st.hw[in.view] # "" /\ in.hw # st.hw[in.view] THEN "repeated elaboration yields different hardware"
                          ELSE "none"
    [] in.op = "meta"  -> IF st.meta # "" /\ in.meta # st.meta THEN "elaboration altered the metadata" ELSE "none"
    \* after all elaborations the instance accepts/refuses an addition exactly like a fresh twin
    [] in.op = "probe" -> IF in.same # 1 THEN "elaboration altered the metadata (frozen flag / placement cursor)" ELSE "none"
    [] OTHER -> "unknown record"
====
