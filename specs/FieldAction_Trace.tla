---- MODULE FieldAction_Trace ----
EXTENDS FieldAction, TraceRunner
====
