---- MODULE NamesAbs_Proof ----
(* TLAPS: C18 for every forest of maps and every universe of names.  One proviso is explicit in the     *)
(* step lemma: names added to the specification's state are drawn from Names (NTypeOK').                 *)
EXTENDS NamesAbs, TLAPS

LEMMA NInitInv == NInit => NInv
  BY DEF NInit, NInv, NTypeOK, PrefixFree, Absorbed

LEMMA NStepInv == NInv /\ [NNext]_nvars /\ NTypeOK' => NInv'
<1> SUFFICES ASSUME NInv, [NNext]_nvars, NTypeOK' PROVE PrefixFree' /\ Absorbed'
  BY DEF NInv
<1> USE DEF NInv, NTypeOK
<1>1. CASE vis' = vis /\ frz' = frz /\ anon' = anon
  BY <1>1 DEF PrefixFree, Absorbed
<1>2. CASE UNCHANGED nvars
  BY <1>2 DEF PrefixFree, Absorbed, nvars
<1>3. CASE \E m \in Maps : \E n \in vis'[m] \ vis[m] :
              /\ ~frz[m]
              /\ FreeIn(Conflict, vis[m], n)
              /\ vis' = [vis EXCEPT ![m] = @ \cup {n}]
              /\ anon' = anon
              /\ (frz' = frz \/ \E c \in Maps : frz' = [frz EXCEPT ![c] = TRUE])
  <2> PICK m \in Maps : \E n \in vis'[m] \ vis[m] :
              /\ ~frz[m]
              /\ FreeIn(Conflict, vis[m], n)
              /\ vis' = [vis EXCEPT ![m] = @ \cup {n}]
              /\ anon' = anon
              /\ (frz' = frz \/ \E c \in Maps : frz' = [frz EXCEPT ![c] = TRUE])
    BY <1>3
  <2> PICK n \in vis'[m] \ vis[m] :
              /\ ~frz[m]
              /\ FreeIn(Conflict, vis[m], n)
              /\ vis' = [vis EXCEPT ![m] = @ \cup {n}]
              /\ anon' = anon
              /\ (frz' = frz \/ \E c \in Maps : frz' = [frz EXCEPT ![c] = TRUE])
    OBVIOUS
  <2>0. n \in Names
    OBVIOUS
  <2>1. \A k \in Maps : vis'[k] = IF k = m THEN vis[m] \cup {n} ELSE vis[k]
    OBVIOUS
  <2>2. \A x \in vis[m] : ~Conflict(n, x) /\ ~Conflict(x, n)
    BY <2>0, Symmetric DEF FreeIn
  <2>3. PrefixFree'
    <3> SUFFICES ASSUME NEW k \in Maps, NEW x \in vis'[k], NEW y \in vis'[k], x # y PROVE ~Conflict(x, y)
      BY DEF PrefixFree
    <3>1. CASE k # m
      BY <3>1, <2>1 DEF PrefixFree
    <3>2. CASE k = m
      <4>1. x \in vis[m] \cup {n} /\ y \in vis[m] \cup {n}
        BY <3>2, <2>1
      <4>2. CASE x \in vis[m] /\ y \in vis[m]
        BY <4>2 DEF PrefixFree
      <4>3. CASE x = n \/ y = n
        BY <4>1, <4>3, <2>2
      <4> QED
        BY <4>1, <4>2, <4>3
    <3> QED
      BY <3>1, <3>2
  <2>4. \A c \in Maps : frz[c] => frz'[c]
    OBVIOUS
  \* the map that grew is not frozen, hence absorbed nowhere
  <2>5. Absorbed'
    <3> SUFFICES ASSUME NEW k \in Maps, NEW c \in anon'[k] PROVE frz'[c] /\ vis'[c] \subseteq vis'[k]
      BY DEF Absorbed
    <3>1. c \in anon[k] /\ c \in Maps /\ frz[c] /\ vis[c] \subseteq vis[k]
      BY DEF Absorbed
    <3>2. c # m
      BY <3>1
    <3>3. vis'[c] = vis[c] /\ vis[k] \subseteq vis'[k]
      BY <3>1, <3>2, <2>1
    <3> QED
      BY <3>1, <3>3, <2>4
  <2> QED
    BY <2>3, <2>5
<1>4. CASE \E m \in Maps : \E c \in Maps :
              /\ ~frz[m]
              /\ \A n \in vis[c] : FreeIn(Conflict, vis[m], n)
              /\ vis' = [vis EXCEPT ![m] = @ \cup vis[c]]
              /\ anon' = [anon EXCEPT ![m] = @ \cup {c}]
              /\ frz' = [frz EXCEPT ![c] = TRUE]
  <2> PICK m \in Maps, c \in Maps :
              /\ ~frz[m]
              /\ \A n \in vis[c] : FreeIn(Conflict, vis[m], n)
              /\ vis' = [vis EXCEPT ![m] = @ \cup vis[c]]
              /\ anon' = [anon EXCEPT ![m] = @ \cup {c}]
              /\ frz' = [frz EXCEPT ![c] = TRUE]
    BY <1>4
  <2>1. \A k \in Maps : vis'[k] = IF k = m THEN vis[m] \cup vis[c] ELSE vis[k]
    OBVIOUS
  <2>2. \A x \in vis[m] : \A n \in vis[c] : ~Conflict(n, x) /\ ~Conflict(x, n)
    BY Symmetric DEF FreeIn
  <2>3. PrefixFree'
    <3> SUFFICES ASSUME NEW k \in Maps, NEW x \in vis'[k], NEW y \in vis'[k], x # y PROVE ~Conflict(x, y)
      BY DEF PrefixFree
    <3>1. CASE k # m
      BY <3>1, <2>1 DEF PrefixFree
    <3>2. CASE k = m
      <4>1. x \in vis[m] \cup vis[c] /\ y \in vis[m] \cup vis[c]
        BY <3>2, <2>1
      <4>2. CASE x \in vis[m] /\ y \in vis[m]
        BY <4>2 DEF PrefixFree
      <4>3. CASE x \in vis[c] /\ y \in vis[c]
        BY <4>3 DEF PrefixFree
      <4>4. CASE (x \in vis[m] /\ y \in vis[c]) \/ (x \in vis[c] /\ y \in vis[m])
        BY <4>4, <2>2
      <4> QED
        BY <4>1, <4>2, <4>3, <4>4
    <3> QED
      BY <3>1, <3>2
  <2>4. \A k \in Maps : frz'[k] = IF k = c THEN TRUE ELSE frz[k]
    OBVIOUS
  <2>5. \A k \in Maps : anon'[k] = IF k = m THEN anon[m] \cup {c} ELSE anon[k]
    OBVIOUS
  <2>6. Absorbed'
    <3> SUFFICES ASSUME NEW k \in Maps, NEW d \in anon'[k] PROVE frz'[d] /\ vis'[d] \subseteq vis'[k]
      BY DEF Absorbed
    <3>1. CASE d \in anon[k]
      <4>1. d \in Maps /\ frz[d] /\ vis[d] \subseteq vis[k]
        BY <3>1 DEF Absorbed
      <4>2. d # m
        BY <4>1
      <4>3. vis'[d] = vis[d] /\ vis[k] \subseteq vis'[k] /\ frz'[d]
        BY <4>1, <4>2, <2>1, <2>4
      <4> QED
        BY <4>1, <4>3
    <3>2. CASE d \notin anon[k]
      <4>1. k = m /\ d = c
        BY <3>2, <2>5
      <4>2. frz'[c]
        BY <2>4
      <4>3. vis'[c] \subseteq vis'[m]
        BY <2>1
      <4> QED
        BY <4>1, <4>2, <4>3
    <3> QED
      BY <3>1, <3>2
  <2> QED
    BY <2>3, <2>6
<1>5. CASE \E c \in Maps : vis' = vis /\ anon' = anon /\ frz' = [frz EXCEPT ![c] = TRUE]
  <2> PICK c \in Maps : vis' = vis /\ anon' = anon /\ frz' = [frz EXCEPT ![c] = TRUE]
    BY <1>5
  <2>1. \A k \in Maps : frz[k] => frz'[k]
    OBVIOUS
  <2> QED
    BY <2>1 DEF PrefixFree, Absorbed
<1> QED
  BY <1>1, <1>2, <1>3, <1>4, <1>5 DEF NNext, NamesRel

\* a frozen map's names never change
LEMMA FrozenStep == NInv /\ [NNext]_nvars => \A m \in Maps : frz[m] => vis'[m] = vis[m] /\ frz'[m]
<1> SUFFICES ASSUME NInv, [NNext]_nvars, NEW k \in Maps, frz[k] PROVE vis'[k] = vis[k] /\ frz'[k]
  OBVIOUS
<1> USE DEF NInv, NTypeOK
<1>1. CASE UNCHANGED nvars
  BY <1>1 DEF nvars
<1>2. CASE NNext
  BY <1>2 DEF NNext, NamesRel
<1> QED
  BY <1>1, <1>2
====
