---- MODULE CsrBuilder ----
(* csr.Builder as a sequential object (property C17).  The layout as_memory_map() must produce   *)
(* is DEFINED by folding the already-checked MemoryMap!add_resource rule over the registers in   *)
(* insertion order with size = ceil(width/dw), alignment = ceil_log2(size) and explicit address  *)
(* offset * granularity / data_width.                                                            *)
(* cfg = [aw, dw, gran]                                                                          *)
(* st  = [regs |-> << [id, name |-> tagged parts (full scope path), offset (-1: implicit), width] >>, *)
(*        scope |-> << tagged parts >>, frozen |-> 0/1]                                           *)
(* call c (logged outcome c.ok): add / enter (cluster or index) / exit / freeze / as_memory_map   *)
EXTENDS MemoryMap

CbInit(cfg) == [regs |-> <<>>, scope |-> <<>>, frozen |-> 0]
Ratio(cfg) == cfg.dw \div cfg.gran

AddMustReject(cfg, st, c) ==
  \/ c.bad # "none"                                   \* not a Register, bad name, bad offset type
  \/ st.frozen = 1
  \/ (c.offset >= 0 /\ c.offset % Ratio(cfg) # 0)
  \/ \E k \in 1..Len(st.regs) : st.regs[k].id = c.reg

CbStep(cfg, st, c) ==
  IF c.call = "as_memory_map" THEN [st EXCEPT !.frozen = 1]      \* freezes even when it then raises
  ELSE IF c.ok = 0 THEN st
  ELSE CASE c.call = "add"    -> [st EXCEPT !.regs = Append(@, [id |-> c.reg, name |-> st.scope \o <<c.name>>,
                                                                  offset |-> c.offset, width |-> c.width])]
         [] c.call = "enter"  -> [st EXCEPT !.scope = Append(@, c.part)]
         [] c.call = "exit"   -> [st EXCEPT !.scope = SubSeq(@, 1, Len(@) - 1)]
         [] c.call = "freeze" -> [st EXCEPT !.frozen = 1]
         [] OTHER -> st

\* ---- the layout: fold add_resource over the registers ------------------------------------------
RegCall(cfg, r) ==
  LET size == CeilDiv(r.width, cfg.dw) IN
  [call |-> "add_resource", m |-> 1, res |-> r.id, name |-> r.name, size |-> size,
   addr |-> IF r.offset >= 0 THEN (r.offset * cfg.gran) \div cfg.dw ELSE -1,
   alignment |-> CeilLog2(size), bad |-> "none", ok |-> 1, start |-> 0, stop |-> 0, ratio |-> 0, ret |-> 0]
RECURSIVE Lay(_, _, _)
\* -> [ok |-> 0/1, maps |-> ...]
Lay(cfg, maps, rs) ==
  IF rs = <<>> THEN [ok |-> 1, maps |-> maps]
  ELSE LET c0 == RegCall(cfg, Head(rs)) IN
       IF ResMustReject(maps, c0) THEN [ok |-> 0, maps |-> maps]
       ELSE LET c == [c0 EXCEPT !.start = ResStart(maps[1], c0), !.stop = ResStop(maps[1], c0)] IN
            Lay(cfg, MmStep(<<>>, [maps |-> maps], c).maps, Tail(rs))
Layout(cfg, st) ==
  Lay(cfg, <<[aw |-> cfg.aw, dw |-> cfg.dw, al |-> 0, frozen |-> 0, cursor |-> 0, items |-> {}]>>, st.regs)

CbCheck(cfg, st, c, o) ==
  IF c.call = "add" THEN
       (IF c.ok = 1 /\ AddMustReject(cfg, st, c) THEN "add accepted a register that must be refused"
        ELSE IF c.ok = 0 /\ ~AddMustReject(cfg, st, c) THEN "add refused a legal register"
        ELSE "none")
  ELSE IF c.call = "enter" THEN
       (IF c.ok # (IF c.bad = "none" THEN 1 ELSE 0) THEN "Cluster/Index outcome" ELSE "none")
  ELSE IF c.call = "as_memory_map" THEN
       LET l == Layout(cfg, st) IN
       IF c.ok # l.ok THEN (IF l.ok = 1 THEN "as_memory_map refused a legal layout"
                            ELSE "as_memory_map accepted an overlapping/colliding/overflowing layout")
       ELSE IF c.ok = 1 /\ o.resources # ViewRes(l.maps[1]) THEN "layout"
       ELSE "none"
  ELSE "none"
====
