---- MODULE MemoryMap_Trace ----
EXTENDS MemoryMap, TraceRunner
====
