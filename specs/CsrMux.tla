---- MODULE CsrMux ----
(* csr.Multiplexer: the sharing-agnostic statement of what its users may rely on (C04, C05).  *)
(*                                                                                            *)
(* cfg = [dw |-> bus data width, regs |-> << [start, stop, width, r, w] >>]                    *)
(*       register k occupies bus addresses start..stop-1 (stop-start >= ceil(width/dw); extra  *)
(*       addresses are alignment padding), r/w = 1 iff readable/writable.                      *)
(* in  = [addr, r_stb, w_stb, w_data |-> bits(dw), rdata |-> << bits(width_k) >>]              *)
(*       rdata[k] is the value register k presents on element.r_data during this cycle.        *)
(* obs = [r_data |-> bits(dw), regs |-> << [r_stb, w_stb, w_data |-> bits(width_k)] >>]        *)
(*                                                                                            *)
(* Exact for ALL input sequences: element.r_stb, element.w_stb, and bus.r_data = 0 unless the *)
(* previous cycle read a chunk of a readable register.  Exact for protocol-conforming         *)
(* sequences: the data.  Where the protocol is broken (chunk k>0 without first chunk, not     *)
(* ascending, another register touched in between) the affected data bits are U - this is     *)
(* precisely where different shadow-sharing limits may legitimately behave differently.        *)
EXTENDS Util

\* chunk c (0-based) of bit-vector v, dw bits wide, zero-extended beyond Len(v)
ChunkOf(v, c, dw) == [k \in 1..dw |-> IF c * dw + k <= Len(v) THEN v[c * dw + k] ELSE 0]
\* concatenation of a sequence of chunks truncated to w bits
Flat(buf, dw, w) == [k \in 1..w |-> buf[((k - 1) \div dw) + 1][((k - 1) % dw) + 1]]
NRegs(cfg)   == Len(cfg.regs)
Size(r)      == r.stop - r.start
RegAt(cfg, a) == IF \E k \in 1..NRegs(cfg) : cfg.regs[k].start <= a /\ a < cfg.regs[k].stop
                 THEN CHOOSE k \in 1..NRegs(cfg) : cfg.regs[k].start <= a /\ a < cfg.regs[k].stop
                 ELSE 0
NoOpen == [reg |-> 0, last |-> 0]
MuxInit(cfg) == [rd |-> Zeros(cfg.dw), ropen |-> NoOpen, snap |-> <<>>,
                 wopen |-> NoOpen, buf |-> <<>>, wstb |-> 0, wdat |-> <<>>]

\* ---- outputs that are exact for every input sequence ----
ExpRStb(cfg, in, k) == in.r_stb = 1 /\ in.addr = cfg.regs[k].start
ExpWStb(st, k)      == st.wstb = k

MuxStep(cfg, st, in) ==
  LET k      == RegAt(cfg, in.addr)
      active == in.r_stb = 1 \/ in.w_stb = 1
      c      == IF k = 0 THEN 0 ELSE in.addr - cfg.regs[k].start
      rdable == k # 0 /\ cfg.regs[k].r = 1
      wrable == k # 0 /\ cfg.regs[k].w = 1
      \* read side
      rhit   == in.r_stb = 1 /\ rdable
      rfirst == rhit /\ c = 0
      rnext  == rhit /\ c > 0 /\ st.ropen.reg = k /\ c > st.ropen.last
      snap2  == IF rfirst THEN in.rdata[k] ELSE st.snap
      ropen2 == IF rfirst THEN [reg |-> k, last |-> 0]
                ELSE IF rnext THEN [reg |-> k, last |-> c]
                ELSE IF active /\ (k # st.ropen.reg \/ rhit) THEN NoOpen
                ELSE st.ropen
      rd2    == IF rfirst THEN ChunkOf(in.rdata[k], 0, cfg.dw)
                ELSE IF rnext THEN ChunkOf(st.snap, c, cfg.dw)
                ELSE IF rhit THEN Unknowns(cfg.dw)
                ELSE Zeros(cfg.dw)
      \* write side
      whit   == in.w_stb = 1 /\ wrable
      wcont  == whit /\ st.wopen.reg = k /\ c > st.wopen.last
      n      == IF k = 0 THEN 0 ELSE Size(cfg.regs[k])
      buf2   == IF wcont THEN [st.buf EXCEPT ![c + 1] = in.w_data]
                ELSE IF whit THEN [j \in 1..n |-> IF j = c + 1 THEN in.w_data ELSE Unknowns(cfg.dw)]
                ELSE st.buf
      wopen2 == IF whit THEN [reg |-> k, last |-> c]
                ELSE IF active /\ k # st.wopen.reg THEN NoOpen
                ELSE st.wopen
      last   == whit /\ c = n - 1
  IN [rd |-> rd2, ropen |-> ropen2, snap |-> IF ropen2.reg = 0 THEN <<>> ELSE snap2,
      wopen |-> wopen2, buf |-> IF wopen2.reg = 0 THEN <<>> ELSE buf2,
      wstb |-> IF last THEN k ELSE 0,
      wdat |-> IF last THEN Flat(buf2, cfg.dw, cfg.regs[k].width) ELSE <<>>]

\* ---- total check of one observed cycle ----
MuxCheck(cfg, st, in, obs) ==
  IF ~Matches(st.rd, obs.r_data) THEN "bus.r_data"
  ELSE IF \E k \in 1..NRegs(cfg) : cfg.regs[k].r = 1 /\ (obs.regs[k].r_stb = 1) # ExpRStb(cfg, in, k)
       THEN "element.r_stb"
  ELSE IF \E k \in 1..NRegs(cfg) : cfg.regs[k].w = 1 /\ (obs.regs[k].w_stb = 1) # ExpWStb(st, k)
       THEN "element.w_stb"
  ELSE IF st.wstb # 0 /\ ~Matches(st.wdat, obs.regs[st.wstb].w_data) THEN "element.w_data"
  ELSE "none"
====
