---- MODULE CsrEventMon_MC ----
(* Leg A for C14: a protocol-abiding CSR initiator (register transactions with idle cycles and   *)
(* aborts) interleaved with arbitrary source activity every cycle, small event counts and bus    *)
(* widths so that the masks span several chunks.                                                 *)
EXTENDS CsrEventMon, Integers, TLC
CONSTANTS MaxN, Quick
VARIABLES key, st, env, wacc, lastin
vars == <<key, st, env, wacc, lastin>>
AllKeys == UNION {[n : {n}, dw : {1, 2}, al : {0, 1}, modes : [1..n -> {"level", "rise"}]] : n \in 1..MaxN}
Keys == IF Quick THEN {k \in AllKeys : k.n = 1 \/ (k.dw = 1 /\ k.al = 0 /\ k.modes = <<"level", "rise">>)} ELSE AllKeys
cfg == [n |-> key.n, dw |-> key.dw, al |-> key.al, modes |-> key.modes,
        regs |-> << [start |-> 0, stop |-> RegSize(key)], [start |-> RegSize(key), stop |-> 2 * RegSize(key)] >>]
AW == 1 + Max2(CeilLog2(CeilDiv(key.n, key.dw)), key.al)
\* env = [reg, rlast, wlast] as in CsrMux_MC
NoEnv == [reg |-> 0, rlast |-> -1, wlast |-> -1]
RegOf(a) == RegAt(MuxCfg(cfg), a)
Conforming(e, i) ==
  LET k == RegOf(i.addr)  c == IF k = 0 THEN 0 ELSE i.addr - cfg.regs[k].start IN
  \/ i.r_stb = 0 /\ i.w_stb = 0
  \/ k = 0
  \/ k # 0 /\ k # e.reg /\ c = 0
  \/ k # 0 /\ k = e.reg /\ (i.r_stb = 1 => c = 0 \/ (e.rlast >= 0 /\ c > e.rlast))
                        /\ (i.w_stb = 1 => c = 0 \/ (e.wlast >= 0 /\ c = e.wlast + 1))
EnvStep(e, i) ==
  LET k == RegOf(i.addr)  c == IF k = 0 THEN 0 ELSE i.addr - cfg.regs[k].start IN
  IF i.r_stb = 0 /\ i.w_stb = 0 THEN e ELSE IF k = 0 THEN NoEnv
  ELSE [reg |-> k, rlast |-> IF i.r_stb = 1 THEN c ELSE IF k = e.reg THEN e.rlast ELSE -1,
                   wlast |-> IF i.w_stb = 1 THEN c ELSE IF k = e.reg THEN e.wlast ELSE -1]
Inputs == {i \in [addr : 0..(Pow2(AW) - 1), r_stb : {0, 1}, w_stb : {0, 1}, w_data : BitVecs(key.dw),
                  i : BitVecs(key.n)] : Conforming(env, i)}
Init == key \in Keys /\ st = EmonInit(cfg) /\ env = NoEnv /\ wacc = <<>> /\ lastin = <<>>
Next == \E i \in Inputs :
          LET k == RegOf(i.addr)  c == IF k = 0 THEN 0 ELSE i.addr - cfg.regs[k].start IN
          /\ st' = EmonStep(cfg, st, i)
          /\ env' = EnvStep(env, i)
          \* the chunks written to a register in this transaction, concatenated (history)
          /\ wacc' = IF k # 0 /\ i.w_stb = 1 /\ c = 0 THEN i.w_data
                     ELSE IF k # 0 /\ i.w_stb = 1 THEN wacc \o i.w_data
                     ELSE IF EnvStep(env, i).wlast < 0 THEN <<>> ELSE wacc
          /\ lastin' = i /\ UNCHANGED key
Spec == Init /\ [][Next]_vars
View == <<key, st, env, wacc>>
NeverLost == st.lost = 0                         \* conforming initiators always write determined data
Props ==
  LET i == lastin'  mask == SubSeq(wacc, 1, key.n) IN
  \* the cycle in which a register's write strobe is high (one cycle after its last chunk was written):
  \* enable takes the written mask; pending loses exactly the ones written, unless re-triggered
  /\ Assert(st.mux.wstb = 1 => st'.enable = mask, <<"EnableTakesWrittenMask", key, st, wacc>>)
  /\ Assert(st.mux.wstb # 1 => st'.enable = st.enable, <<"EnableHeld", key>>)
  /\ Assert(\A b \in 1..key.n :
              LET trg == Trg(EvCfg(cfg), st.ev, [i |-> i.i], b) IN
              st'.ev.pending[b] = (IF trg = 1 THEN 1                               \* a trigger is never lost
                                   ELSE IF st.mux.wstb = 2 /\ mask[b] = 1 THEN 0   \* write-one-to-clear
                                   ELSE st.ev.pending[b]),                         \* zeros clear nothing
            <<"WriteOneClearsExactlyThose/RetriggerWins", key, st, i>>)
  /\ Assert(Irq(cfg, st) = 1 <=> \E b \in 1..key.n : st.enable[b] = 1 /\ st.ev.pending[b] = 1, <<"Irq", key>>)
NeverCleared == [][~(st.mux.wstb = 2 /\ \E b \in 1..key.n : st.ev.pending[b] = 1 /\ st'.ev.pending[b] = 0)]_vars
====
