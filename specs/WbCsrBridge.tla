---- MODULE WbCsrBridge ----
(* csr.wishbone.WishboneCSRBridge (property C10).                                              *)
(* cfg = [n |-> ratio wb.data_width / csr.data_width, caw |-> CSR address width]                *)
(* st  = [phase |-> 0..n+1, datr |-> << lane >>]                                                 *)
(*        phase p < n : granule p is issued in the next cycle that presents cyc & stb           *)
(*        phase n     : all granules issued; the acknowledge is being registered                *)
(*        phase n+1   : the acknowledge is visible                                              *)
(*        datr[i+1]   : what lane i of dat_r must show with the acknowledge (U-vector: free)    *)
(* in  = [cyc, stb, we, adr, sel |-> bits(n), dat_w |-> << lane >>, csr_r_data |-> lane]         *)
(*        a lane is a sequence of byte values (csr.data_width / 8 of them)                      *)
(* obs = [ack, dat_r |-> << lane >>, csr |-> [addr, r_stb, w_stb, w_data |-> lane]]              *)
(* The Wishbone initiator is protocol-abiding: a transfer is held unchanged until acknowledged. *)
EXTENDS Util

ULane(l) == [b \in 1..Len(l) |-> U]
BrInit(cfg) == [phase |-> 0, datr |-> <<>>]

Req(in) == in.cyc = 1 /\ in.stb = 1
BrStep(cfg, st, in) ==
  LET n == cfg.n  p == st.phase
      \* lane p-1 is re-registered from the CSR read data of this cycle (CSR reads take a cycle)
      latch == [i \in 1..n |-> IF i = p THEN (IF in.sel[i] = 1 /\ in.we = 0 THEN in.csr_r_data
                                              ELSE ULane(in.csr_r_data))
                               ELSE IF i <= Len(st.datr) THEN st.datr[i] ELSE ULane(in.csr_r_data)] IN
  IF p = n + 1 THEN [phase |-> 0, datr |-> <<>>]
  ELSE IF ~Req(in) THEN st
  ELSE IF p = 0 THEN [phase |-> 1, datr |-> [i \in 1..n |-> ULane(in.csr_r_data)]]
  ELSE [phase |-> p + 1, datr |-> latch]

Issuing(cfg, st, in) == Req(in) /\ st.phase < cfg.n
BrCsr(cfg, st, in) ==
  LET p == st.phase IN
  IF Issuing(cfg, st, in)
  THEN [addr  |-> (in.adr * cfg.n + p) % Pow2(cfg.caw),
        r_stb |-> IF in.sel[p + 1] = 1 /\ in.we = 0 THEN 1 ELSE 0,
        w_stb |-> IF in.sel[p + 1] = 1 /\ in.we = 1 THEN 1 ELSE 0,
        w_data |-> in.dat_w[p + 1]]
  ELSE [addr |-> 0, r_stb |-> 0, w_stb |-> 0, w_data |-> <<>>]

BrCheck(cfg, st, in, o) ==
  LET c == BrCsr(cfg, st, in) IN
  IF o.csr.r_stb # c.r_stb THEN "csr.r_stb"
  ELSE IF o.csr.w_stb # c.w_stb THEN "csr.w_stb"
  ELSE IF (c.r_stb = 1 \/ c.w_stb = 1) /\ o.csr.addr # c.addr THEN "csr.addr"
  ELSE IF c.w_stb = 1 /\ o.csr.w_data # c.w_data THEN "csr.w_data"
  ELSE IF o.ack # Bit(st.phase = cfg.n + 1) THEN "wb.ack"
  ELSE IF st.phase = cfg.n + 1 /\ \E i \in 1..cfg.n : ~Matches(st.datr[i], o.dat_r[i]) THEN "wb.dat_r"
  ELSE "none"
====
