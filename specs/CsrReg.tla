---- MODULE CsrReg ----
(* csr.Register (property C11): packing of an arbitrarily nested field collection.              *)
(* A field collection is a tree:                                                                *)
(*   [k |-> "leaf", w |-> width, acc |-> "r" | "w" | "rw" | "nc"]                                *)
(*   [k |-> "dict", keys |-> << names >>, kids |-> << trees >>]    (declaration order)          *)
(*   [k |-> "list", kids |-> << trees >>]                                                        *)
(* cfg = [access |-> "r" | "w" | "rw", tree |-> tree]                                             *)
(* in  = [kind |-> "construct"]  (first step of every trace; obs = [ok |-> 0/1]), then             *)
(*       [kind |-> "cycle", r_stb, w_stb, w_data |-> bits(W) (element side; absent directions 0),  *)
(*        f_r_data |-> << bits(w_j) >>]       what field j (declaration order) presents            *)
(* obs = [r_data |-> bits(W), fields |-> << [r_stb, w_stb, w_data |-> bits(w_j)] >>]               *)
EXTENDS Util, SequencesExt

RECURSIVE Flatten(_, _)
\* leaves in declaration order, with their path: <<[path, w, acc]>>
Flatten(t, path) ==
  IF t.k = "leaf" THEN <<[path |-> path, w |-> t.w, acc |-> t.acc]>>
  ELSE IF t.k = "dict"
       THEN FlattenSeq([j \in 1..Len(t.kids) |-> Flatten(t.kids[j], Append(path, "s:" \o t.keys[j]))])
       ELSE FlattenSeq([j \in 1..Len(t.kids) |-> Flatten(t.kids[j], Append(path, "i:" \o ToString(j - 1)))])
Leaves(cfg) == Flatten(cfg.tree, <<>>)
RECURSIVE SumW(_, _)
SumW(ls, n) == IF n = 0 THEN 0 ELSE SumW(ls, n - 1) + ls[n].w
Width(cfg) == SumW(Leaves(cfg), Len(Leaves(cfg)))
Offset(cfg, j) == SumW(Leaves(cfg), j - 1)          \* field j occupies [Offset, Offset + w)
Readable(a) == a \in {"r", "rw"}
Writable(a) == a \in {"w", "rw"}
\* construction is refused iff some field needs a direction the register does not have
Refused(cfg) == \E j \in 1..Len(Leaves(cfg)) :
                  \/ (Readable(Leaves(cfg)[j].acc) /\ ~Readable(cfg.access))
                  \/ (Writable(Leaves(cfg)[j].acc) /\ ~Writable(cfg.access))

\* the derived layout is computed once (it is the state of this stateless component)
RgInit(cfg) == [ls |-> Leaves(cfg), off |-> [j \in 1..Len(Leaves(cfg)) |-> Offset(cfg, j)], w |-> Width(cfg)]
RgStep(cfg, st, in) == st
FieldAt(st, b) == CHOOSE j \in 1..Len(st.ls) : st.off[j] < b /\ b <= st.off[j] + st.ls[j].w
ExpRData(st, in) ==
  [b \in 1..st.w |-> LET j == FieldAt(st, b) IN
                     IF Readable(st.ls[j].acc) THEN in.f_r_data[j][b - st.off[j]] ELSE 0]
RgCheck(cfg, st, in, o) ==
  LET ls == st.ls IN
  \* the construction step: refused exactly when some field's access mode cannot be served
  IF in.kind = "construct" THEN (IF o.ok # 1 - Bit(Refused(cfg)) THEN "RefusedIffIncompatible" ELSE "none")
  ELSE IF Len(o.r_data) # st.w THEN "register width"
  ELSE IF Readable(cfg.access) /\ o.r_data # ExpRData(st, in) THEN "element.r_data"
  ELSE IF \E j \in 1..Len(ls) : o.fields[j].r_stb # (IF Readable(ls[j].acc) THEN in.r_stb ELSE 0) THEN "field r_stb"
  ELSE IF \E j \in 1..Len(ls) : o.fields[j].w_stb # (IF Writable(ls[j].acc) THEN in.w_stb ELSE 0) THEN "field w_stb"
  ELSE IF \E j \in 1..Len(ls) : Writable(ls[j].acc)
                                /\ o.fields[j].w_data # Slice(in.w_data, st.off[j], ls[j].w) THEN "field w_data"
  ELSE "none"
====
