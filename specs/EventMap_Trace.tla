---- MODULE EventMap_Trace ----
EXTENDS EventMap, TraceRunner
====
