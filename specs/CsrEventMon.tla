---- MODULE CsrEventMon ----
(* csr.event.EventMonitor (property C14) = CsrMux (registers enable, pending) composed with      *)
(* EventMon by the documented glue: enable is latched from element.w_data when enable.w_stb,     *)
(* pending.w_stb gates element.w_data onto the monitor's clear input combinationally.            *)
(* cfg = [n |-> events, dw, al |-> alignment, modes |-> << trigger modes >>,                      *)
(*        regs |-> << [start, stop] >> as reported by memory_map.all_resources() (enable, pending)] *)
(* st  = [mux, ev, enable |-> bits(n), lost |-> 0/1]                                               *)
(* in  = [addr, r_stb, w_stb, w_data |-> bits(dw), i |-> bits(n) (source input lines)]             *)
(* obs = [r_data |-> bits(dw), irq |-> 0/1]                                                        *)
EXTENDS CsrMux, EventMon

RegSize(cfg) == AlignUp(Max2(CeilDiv(cfg.n, cfg.dw), 1), cfg.al)
\* the layout software is told must be the documented one: enable first, pending next
LayoutOK(cfg) == cfg.regs = << [start |-> 0, stop |-> RegSize(cfg)],
                               [start |-> RegSize(cfg), stop |-> 2 * RegSize(cfg)] >>
MuxCfg(cfg) == [dw |-> cfg.dw,
                regs |-> [k \in 1..2 |-> [start |-> cfg.regs[k].start, stop |-> cfg.regs[k].stop,
                                          width |-> cfg.n, r |-> 1, w |-> 1]]]
EvCfg(cfg) == [n |-> cfg.n, modes |-> cfg.modes]

EmonInit(cfg) == [mux |-> MuxInit(MuxCfg(cfg)), ev |-> EvInit(EvCfg(cfg)), enable |-> Zeros(cfg.n), lost |-> 0]
HasU(v) == \E b \in 1..Len(v) : v[b] = U
MuxIn(cfg, st, in) == [addr |-> in.addr, r_stb |-> in.r_stb, w_stb |-> in.w_stb, w_data |-> in.w_data,
                       rdata |-> <<st.enable, st.ev.pending>>]
Clear(cfg, st) == IF st.mux.wstb = 2 THEN st.mux.wdat ELSE Zeros(cfg.n)
EmonStep(cfg, st, in) ==
  LET clr == Clear(cfg, st) IN
  [mux    |-> MuxStep(MuxCfg(cfg), st.mux, MuxIn(cfg, st, in)),
   ev     |-> IF HasU(clr) THEN st.ev ELSE EvStep(EvCfg(cfg), st.ev, [i |-> in.i, enable |-> st.enable, clear |-> clr]),
   enable |-> IF st.mux.wstb = 1 /\ ~HasU(st.mux.wdat) THEN st.mux.wdat ELSE st.enable,
   \* a write whose data the protocol does not determine: nothing more can be said about this run
   lost   |-> IF st.lost = 1 \/ (st.mux.wstb # 0 /\ HasU(st.mux.wdat)) THEN 1 ELSE 0]
Irq(cfg, st) == Bit(\E k \in 1..cfg.n : st.enable[k] = 1 /\ st.ev.pending[k] = 1)
EmonCheck(cfg, st, in, o) ==
  IF ~LayoutOK(cfg) THEN "memory map layout"
  ELSE IF st.lost = 1 THEN "none"
  ELSE IF ~Matches(st.mux.rd, o.r_data) THEN "bus.r_data"
  ELSE IF o.irq # Irq(cfg, st) THEN "src.i"
  ELSE "none"
====
