---- MODULE NamesAbsOps ----
(* Constant-level step relation of the abstract name space of a forest of memory maps (NamesAbs.tla). *)
(*   M        the set of maps                                                                          *)
(*   C(_, _)  "the two names conflict" (one is a prefix of the other, or they are equal)               *)
(*   v[m]     the names VISIBLE in map m: its own and those absorbed through anonymous windows          *)
(*   f[m]     frozen;   a[m]  the maps absorbed by m as anonymous windows                              *)
FreeIn(C(_, _), S, n) == \A x \in S : ~C(n, x)
NamesRel(M, C(_, _), v1, f1, a1, v2, f2, a2) ==
  \/ v2 = v1 /\ f2 = f1 /\ a2 = a1
  \* add_resource, or add_window with a name (which also freezes the window's map c)
  \/ \E m \in M : \E n \in v2[m] \ v1[m] :
        /\ ~f1[m]
        /\ FreeIn(C, v1[m], n)
        /\ v2 = [v1 EXCEPT ![m] = @ \cup {n}]
        /\ a2 = a1
        /\ (f2 = f1 \/ \E c \in M : f2 = [f1 EXCEPT ![c] = TRUE])
  \* add_window without a name: every name visible in c becomes visible in m; c is frozen
  \/ \E m \in M : \E c \in M :
        /\ ~f1[m]
        /\ \A n \in v1[c] : FreeIn(C, v1[m], n)
        /\ v2 = [v1 EXCEPT ![m] = @ \cup v1[c]]
        /\ a2 = [a1 EXCEPT ![m] = @ \cup {c}]
        /\ f2 = [f1 EXCEPT ![c] = TRUE]
  \* freeze (also: handed to a bridge or a peripheral)
  \/ \E c \in M : v2 = v1 /\ a2 = a1 /\ f2 = [f1 EXCEPT ![c] = TRUE]
====
