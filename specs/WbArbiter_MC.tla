---- MODULE WbArbiter_MC ----
(* Leg A for C08/C09: model-check the arbiter specification over a family of small         *)
(* configurations, with EVERY input combination offered in every cycle (initiators are not *)
(* assumed to behave), and export the labelled transition relation for the edge tour on    *)
(* the real design (leg B).                                                                *)
(* The input is not part of the state identity (VIEW): the state is just (cfg, grant).     *)
EXTENDS WbArbiter, TLC, Json
CONSTANTS MaxN, Mode      \* Mode: "rich" (payload tokens 0/1), "poor" (token 0), "export"
Export == Mode = "export"
VARIABLES key, st, lastin

Profiles == {"all", "none", "mixed"}
Has(p, k)   == IF p = "all" THEN 1 ELSE IF p = "none" THEN 0 ELSE k % 2
RatioOf(p, k) == IF p = "mixed" /\ k % 2 = 0 THEN 2 ELSE 1
Keys == [n : 1..MaxN, l : {0, 1}, s : {0, 1}, e : {0, 1}, p : Profiles]
CfgOf(k) ==
  [n    |-> k.n,
   feat |-> [err |-> k.e, rty |-> k.e, stall |-> k.s, lock |-> k.l, cti |-> 1, bte |-> 0],
   intr |-> [j \in 1..k.n |->
              [feat  |-> [err |-> Max2(k.e, Has(k.p, j)), rty |-> Max2(k.e, Has(k.p, j)),
                          stall |-> Has(k.p, j), lock |-> Has(k.p, j), cti |-> Has(k.p, j),
                          bte |-> Has(k.p, j)],
               ratio |-> RatioOf(k.p, j)]]]
cfg == CfgOf(key)

Toks == IF Mode = "rich" THEN {0, 1} ELSE {0}
IntrIn == {[cyc |-> c, stb |-> s, lock |-> l, we |-> x, adr |-> x, dat_w |-> <<x>>,
            sel |-> <<x>>, cti |-> x, bte |-> x] : c \in {0, 1}, s \in {0, 1}, l \in {0, 1}, x \in Toks}
TgtIn  == IF Export THEN {[ack |-> 1, err |-> 0, rty |-> 0, stall |-> 0, dat_r |-> <<0>>]}
          ELSE {[ack |-> a, err |-> e, rty |-> e, stall |-> s, dat_r |-> <<0>>]
                 : a \in {0, 1}, e \in {0, 1}, s \in {0, 1}}
Inputs(c) == {[intr |-> v, tgt |-> tg] : v \in [1..c.n -> IntrIn], tg \in TgtIn}

NoIn == [intr |-> <<>>, tgt |-> <<>>]
Init == /\ key \in Keys
        /\ st = ArbInit(cfg)
        /\ lastin = NoIn
        /\ IF Export THEN PrintT(<<"CFG", ToJson([key |-> key, cfg |-> cfg])>>) ELSE TRUE
Next == \E i \in Inputs(cfg) :
          /\ st' = ArbStep(cfg, st, i)
          /\ lastin' = i
          /\ UNCHANGED key
Spec == Init /\ [][Next]_<<key, st, lastin>>
View == <<key, st>>

\* ------------------------------------------------------------------------------------
\* The listed properties, stated declaratively and independently of ArbBus/ArbIntr/NextGrant
\* ------------------------------------------------------------------------------------
N == cfg.n
Idx == 1..N
\* C08: exactly one initiator is connected; everybody else is isolated and stalled
OwnerSeesTarget(i, g) ==
  LET o == ArbIntr(cfg, st, i, g) IN
  /\ o.ack = i.tgt.ack
  /\ (cfg.feat.err = 1 => o.err = i.tgt.err) /\ (cfg.feat.err = 0 => o.err = 0)
  /\ (cfg.feat.rty = 1 => o.rty = i.tgt.rty) /\ (cfg.feat.rty = 0 => o.rty = 0)
  /\ (cfg.feat.stall = 1 => o.stall = i.tgt.stall)
  /\ (cfg.feat.stall = 0 => o.stall = 1 - i.tgt.ack)
OthersIsolated(i, g) ==
  \A k \in Idx \ {g} : LET o == ArbIntr(cfg, st, i, k) IN
     o.ack = 0 /\ o.err = 0 /\ o.rty = 0 /\ o.stall = 1
BusIsOwners(i, g) ==
  LET b == ArbBus(cfg, st, i)  r == i.intr[g] IN
  /\ b.adr = r.adr /\ b.dat_w = r.dat_w /\ b.we = r.we /\ b.stb = r.stb /\ b.cyc = r.cyc
  /\ Len(b.sel) = Len(r.sel) * cfg.intr[g].ratio
  /\ \A q \in 1..Len(b.sel) : b.sel[q] = r.sel[((q - 1) \div cfg.intr[g].ratio) + 1]
  /\ b.lock = (IF cfg.feat.lock = 1 /\ cfg.intr[g].feat.lock = 1 THEN r.lock ELSE 0)
  /\ b.cti  = (IF cfg.intr[g].feat.cti = 1 THEN r.cti ELSE 0)
  /\ b.bte  = 0
\* the owner's cycle is in progress (statement of C08, in terms of what the owner drives)
InProgress(i, g) ==
  /\ i.intr[g].cyc = 1
  /\ (cfg.feat.lock = 1 =>
        (i.intr[g].stb = 1 \/ (cfg.intr[g].feat.lock = 1 /\ i.intr[g].lock = 1)))
NoPreempt(i, g, g2) == InProgress(i, g) => g2 = g
\* C09: exact successor, stated as "closest requester after the owner in cyclic order"
Dist(a, b) == (b + N - a) % N          \* how far b is after a, cyclically (0 for a = b)
ExactSuccessor(i, g, g2) ==
  IF InProgress(i, g) THEN g2 = g
  ELSE IF \A k \in Idx \ {g} : i.intr[k].cyc = 0 THEN g2 = g
  ELSE /\ g2 # g /\ i.intr[g2].cyc = 1
       /\ \A k \in Idx \ {g} : i.intr[k].cyc = 1 => Dist(g, g2) <= Dist(g, k)

Props ==
  LET i == lastin'  g == st.grant  g2 == st'.grant IN
  /\ Assert(OwnerSeesTarget(i, g), <<"C08 OwnerSeesTarget", key, g, i>>)
  /\ Assert(OthersIsolated(i, g), <<"C08 OthersIsolated", key, g, i>>)
  /\ Assert(BusIsOwners(i, g), <<"C08 BusIsOwners", key, g, i>>)
  /\ Assert(NoPreempt(i, g, g2), <<"C08 NoPreempt", key, g, i, g2>>)
  /\ Assert(ExactSuccessor(i, g, g2), <<"C09 ExactSuccessor", key, g, i, g2>>)
  /\ Assert(AbsGrantOK(cfg, st, i), <<"C09 refines WbArbiterAbs!GrantRel", key, g, i, g2>>)
  /\ (IF ~Export THEN TRUE ELSE PrintT(<<"EDGE", ToJson([key |-> key, g |-> g, g2 |-> g2,
          cyc  |-> [k \in Idx |-> i.intr[k].cyc],
          stb  |-> [k \in Idx |-> i.intr[k].stb],
          lock |-> [k \in Idx |-> i.intr[k].lock]])>>))

OwnerInRange == st.grant \in Idx
\* vacuity witnesses: each of these "never happens" claims must be REFUTED by TLC
NeverMoves == [][st'.grant = st.grant]_<<key, st, lastin>>
====
