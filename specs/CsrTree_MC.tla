---- MODULE CsrTree_MC ----
(* Last sentence of C06 at the design level: registers spread over a decoder and two          *)
(* multiplexers behave exactly like the same registers on ONE multiplexer at the addresses    *)
(* the memory map reports.  The decoder specification routes each root access to the two      *)
(* multiplexer specifications; the flat multiplexer specification runs in lock-step; on every  *)
(* transition (every input vector, conforming or not) the strobes coincide and every data bit  *)
(* the flat specification determines is produced identically by the tree.                     *)
EXTENDS CsrMux, CsrDecoder, TLC
CONSTANTS NPairs
VARIABLES key, s1, s2, sf, lastin
vars == <<key, s1, s2, sf, lastin>>
R(s, e, w, r, wr) == [start |-> s, stop |-> e, width |-> w, r |-> r, w |-> wr]
\* [sa |-> subordinate address width, l1, l2 |-> register layouts of the two multiplexers]
PairSeq == << [sa |-> 1, l1 |-> <<R(0, 2, 2, 1, 1)>>, l2 |-> <<R(0, 1, 1, 1, 0), R(1, 2, 1, 0, 1)>>],
             [sa |-> 1, l1 |-> <<R(0, 1, 0, 1, 1), R(1, 2, 1, 1, 1)>>, l2 |-> <<R(0, 2, 1, 1, 1)>>],
             [sa |-> 2, l1 |-> <<R(0, 2, 2, 1, 1), R(2, 3, 1, 1, 0)>>, l2 |-> <<R(1, 4, 3, 1, 1)>>],
             [sa |-> 2, l1 |-> <<R(0, 3, 2, 1, 1)>>, l2 |-> <<R(0, 1, 1, 0, 1), R(2, 4, 2, 1, 1)>>],
             [sa |-> 2, l1 |-> <<R(1, 2, 0, 1, 1), R(2, 4, 2, 0, 1)>>, l2 |-> <<R(0, 4, 4, 1, 1)>>] >>
Pairs == {PairSeq[k] : k \in 1..NPairs}
SA == key.sa
SZ == Pow2(SA)
L1 == [dw |-> 1, regs |-> key.l1]
L2 == [dw |-> 1, regs |-> key.l2]
N1 == Len(key.l1)
N2 == Len(key.l2)
Shift(r, by) == [r EXCEPT !.start = r.start + by, !.stop = r.stop + by]
LF == [dw |-> 1, regs |-> [k \in 1..(N1 + N2) |-> IF k <= N1 THEN key.l1[k] ELSE Shift(key.l2[k - N1], SZ)]]
DC == [aw |-> SA + 1, dw |-> 1, subs |-> <<[aw |-> SA, start |-> 0], [aw |-> SA, start |-> SZ]>>]
Pat(w, p) == [b \in 1..w |-> (b + p) % 2]
Inputs == {[addr |-> a, r_stb |-> rs, w_stb |-> ws, w_data |-> wd,
            rdata |-> [k \in 1..(N1 + N2) |-> Pat(LF.regs[k].width, p + k)]] :
             a \in 0..(2 * SZ - 1), rs \in {0, 1}, ws \in {0, 1}, wd \in BitVecs(1), p \in {0, 1}}
\* what the decoder specification forwards to subordinate k
Sub(i, k) == LET sel == k \in Selected(DC, i.addr) IN
  [addr |-> i.addr % SZ, r_stb |-> IF sel THEN i.r_stb ELSE 0, w_stb |-> IF sel THEN i.w_stb ELSE 0,
   w_data |-> i.w_data,
   rdata |-> IF k = 1 THEN [j \in 1..N1 |-> i.rdata[j]] ELSE [j \in 1..N2 |-> i.rdata[N1 + j]]]
Init == key \in Pairs /\ s1 = MuxInit(L1) /\ s2 = MuxInit(L2) /\ sf = MuxInit(LF) /\ lastin = <<>>
Next == \E i \in Inputs :
          /\ s1' = MuxStep(L1, s1, Sub(i, 1)) /\ s2' = MuxStep(L2, s2, Sub(i, 2))
          /\ sf' = MuxStep(LF, sf, i) /\ lastin' = i /\ UNCHANGED key
Spec == Init /\ [][Next]_vars
View == <<key, s1, s2, sf>>
\* upstream read data of the tree: OR of the two multiplexers' read data
TreeRd == [b \in 1..1 |-> IF s1.rd[b] = U \/ s2.rd[b] = U THEN U
                          ELSE IF s1.rd[b] = 1 \/ s2.rd[b] = 1 THEN 1 ELSE 0]
TreeWStb == IF s1.wstb # 0 THEN s1.wstb ELSE IF s2.wstb # 0 THEN N1 + s2.wstb ELSE 0
TreeWDat == IF s1.wstb # 0 THEN s1.wdat ELSE s2.wdat
Props ==
  LET i == lastin' IN
  /\ Assert(\A k \in 1..(N1 + N2) :
              ExpRStb(LF, i, k) = (IF k <= N1 THEN ExpRStb(L1, Sub(i, 1), k) ELSE ExpRStb(L2, Sub(i, 2), k - N1)),
            <<"TreeMatchesFlat r_stb", key, i>>)
  /\ Assert(~(s1.wstb # 0 /\ s2.wstb # 0) /\ sf.wstb = TreeWStb, <<"TreeMatchesFlat w_stb", key, sf, s1, s2>>)
  /\ Assert(Matches(sf.rd, TreeRd), <<"TreeMatchesFlat r_data", key, sf, s1, s2>>)
  /\ Assert(sf.wstb # 0 => Matches(sf.wdat, TreeWDat), <<"TreeMatchesFlat w_data", key, sf, s1, s2>>)
====
