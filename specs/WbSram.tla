---- MODULE WbSram ----
(* wishbone.WishboneSRAM (property C15).                                                      *)
(* cfg = [rows |-> number of words, nb |-> bytes per word, gb |-> bytes per granule,          *)
(*        writable |-> 0/1, init |-> << word >>]      a word is a sequence of nb byte values  *)
(* st  = [mem |-> << word >>, ack |-> 0/1, rd |-> word with U where unconstrained]             *)
(* in  = [cyc, stb, we, adr (0-based word address), sel |-> bits (one per granule), dat_w |-> word] *)
(* obs = [ack, dat_r |-> word, mem |-> << word >> (contents during this cycle)]                *)
EXTENDS Util

SrInit(cfg) == [mem |-> cfg.init, ack |-> 0, rd |-> Unknowns(cfg.nb)]

\* a transfer is accepted in a cycle that presents cyc & stb while no acknowledge is out
Accepted(st, in) == st.ack = 0 /\ in.cyc = 1 /\ in.stb = 1

\* word after writing the selected granules of dat_w
Merge(cfg, old, in) ==
  [b \in 1..cfg.nb |-> IF in.sel[((b - 1) \div cfg.gb) + 1] = 1 THEN in.dat_w[b] ELSE old[b]]

SrStep(cfg, st, in) ==
  LET acc == Accepted(st, in)
      wr  == acc /\ in.we = 1 /\ cfg.writable = 1 IN
  [mem |-> IF wr THEN [st.mem EXCEPT ![in.adr + 1] = Merge(cfg, st.mem[in.adr + 1], in)] ELSE st.mem,
   ack |-> Bit(acc),
   \* read data accompanying the acknowledge: the word as it is when the read is accepted
   rd  |-> IF acc /\ in.we = 0 THEN st.mem[in.adr + 1] ELSE Unknowns(cfg.nb)]

SrCheck(cfg, st, in, o) ==
  IF o.ack # st.ack THEN "ack"
  ELSE IF st.ack = 1 /\ ~Matches(st.rd, o.dat_r) THEN "dat_r"
  ELSE IF o.mem # st.mem THEN "memory contents"
  ELSE "none"
====
