---- MODULE WbArbiterAbs ----
(* Round-robin ownership for an ARBITRARY number N of initiators (property C09's "hence ...").      *)
(*   grant   who owns the shared bus                                                                *)
(*   passes  history: passes[w] = how many times ownership went to somebody else since w started    *)
(*           its current uninterrupted request (0 when w does not request or owns the bus)          *)
(* The environment chooses, in every cycle, the set R of requesting initiators and whether the      *)
(* owner holds the bus (busy) - with no assumption of good behaviour at all.                        *)
(* TLAPS proves (WbArbiterAbs_Proof.tla), for every N:  passes[w] <= N - 1  always: an initiator     *)
(* that keeps requesting sees at most N-1 grants to others before its own, whatever the others do.   *)
(* TLC checks that WbArbiter.tla (the specification the real arbiter is validated against) takes     *)
(* exactly GrantRel steps for every N it explores (WbArbiter_MC: N <= 4, WbArbiter_Succ_MC: 5..8),   *)
(* and trace validation evaluates the same relation on every recorded cycle of the real arbiters.    *)
EXTENDS WbArbiterAbsOps
CONSTANT N
ASSUME NOK == N \in Nat /\ N >= 1
VARIABLES grant, passes
rvars == <<grant, passes>>
Ix == 0..(N - 1)

RInit == grant = 0 /\ passes = [w \in Ix |-> 0]
RStep(R, busy) ==
  /\ GrantRel(N, grant, R, busy, grant')
  /\ passes' = [w \in Ix |-> IF w \notin R \/ grant' = w THEN 0
                             ELSE IF grant' # grant THEN passes[w] + 1 ELSE passes[w]]
RNext == \E R \in SUBSET Ix : \E busy \in BOOLEAN : RStep(R, busy)
RSpec == RInit /\ [][RNext]_rvars

RTypeOK == grant \in Ix /\ passes \in [Ix -> Nat]
\* the ranking argument: every pass brings the owner strictly closer to a waiting initiator
Rank == \A w \in Ix : /\ w = grant => passes[w] = 0
                      /\ w # grant => passes[w] = 0 \/ passes[w] + RDist(N, grant, w) <= N
RInv == RTypeOK /\ Rank
BoundedWait == \A w \in Ix : passes[w] <= N - 1
====
