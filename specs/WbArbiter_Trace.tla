---- MODULE WbArbiter_Trace ----
(* cfg: CONSTANTS TInit <- ArbInit  TStep <- ArbStep  TCheck <- ArbCheck *)
EXTENDS WbArbiter, TraceRunner
====
