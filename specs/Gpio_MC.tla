---- MODULE Gpio_MC ----
(* Leg A for C16: conforming CSR initiator interleaved with arbitrary pin activity; abstract      *)
(* chunk widths so that Mode/SetClr span several chunks; history of pin levels for the delay.      *)
EXTENDS Gpio, TLC
CONSTANTS Fam
VARIABLES key, st, env, past, lastin
vars == <<key, st, env, past, lastin>>
K(p, d, a, s) == [pins |-> p, dw |-> d, aw |-> a, stages |-> s]
Keys == IF Fam = "quick" THEN {K(1, 1, 3, 0), K(1, 1, 3, 2), K(1, 2, 3, 1)}
        ELSE IF Fam = "thorough" THEN {K(1, 1, 3, s) : s \in 0..3} \cup {K(1, 2, 3, s) : s \in 0..2}
        ELSE {K(2, 4, 2, 1), K(2, 2, 3, 1)}     \* "pins2": explored by -simulate only
\* the full configuration is computed once per key (the layout is a recursive fold) and carried in `key`
GLay(k) == GpLayout([aw |-> k.aw, dw |-> k.dw, pins |-> k.pins])
Full(k) == [pins |-> k.pins, dw |-> k.dw, aw |-> k.aw, stages |-> k.stages,
            regs |-> [j \in 1..4 |-> LET it == CHOOSE it \in GLay(k).maps[1].items : it.id = j IN [start |-> it.start, stop |-> it.stop]]]
cfg == key
NoEnv == [reg |-> 0, rlast |-> -1, wlast |-> -1]
RegOf(c, a) == RegAt(GpMux(c), a)
Conforming(c, e, i) ==
  LET k == RegOf(c, i.addr)  ch == IF k = 0 THEN 0 ELSE i.addr - c.regs[k].start IN
  \/ (i.r_stb = 0 /\ i.w_stb = 0)
  \/ k = 0
  \/ (k # 0 /\ k # e.reg /\ ch = 0)
  \/ k # 0 /\ k = e.reg /\ (i.r_stb = 1 => ch = 0 \/ (e.rlast >= 0 /\ ch > e.rlast))
                        /\ (i.w_stb = 1 => ch = 0 \/ (e.wlast >= 0 /\ ch = e.wlast + 1))
EnvStep(c, e, i) ==
  LET k == RegOf(c, i.addr)  ch == IF k = 0 THEN 0 ELSE i.addr - c.regs[k].start IN
  IF i.r_stb = 0 /\ i.w_stb = 0 THEN e ELSE IF k = 0 THEN NoEnv
  ELSE [reg |-> k, rlast |-> IF i.r_stb = 1 THEN ch ELSE IF k = e.reg THEN e.rlast ELSE -1,
                   wlast |-> IF i.w_stb = 1 THEN ch ELSE IF k = e.reg THEN e.wlast ELSE -1]
Init == /\ key \in {Full(k) : k \in Keys} /\ st = GpInit(cfg) /\ env = NoEnv /\ past = <<>> /\ lastin = <<>>
Next == LET c == cfg IN
        \E i \in [addr : 0..(Pow2(key.aw) - 1), r_stb : {0, 1}, w_stb : {0, 1}, w_data : BitVecs(key.dw), i : BitVecs(key.pins)] :
          /\ Conforming(c, env, i)
          /\ st' = GpStep(c, st, i)
          /\ env' = EnvStep(c, env, i)
          /\ past' = SubSeq(<<i.i>> \o past, 1, Min2(Len(past) + 1, 3))       \* the last three pin vectors
          /\ lastin' = i /\ UNCHANGED key
Spec == Init /\ [][Next]_vars
View == <<key, st, env, past>>
LayoutAccepted == st.lay = 1
NeverLost == st.lost = 0
\* the Input register presents each pin's level delayed by exactly `stages` cycles (0 before that)
Props ==
  LET i == lastin'  c == cfg IN
  /\ Assert(InVal(c, st, i) = (IF key.stages = 0 THEN i.i
                               ELSE IF Len(past) >= key.stages THEN past[key.stages] ELSE Zeros(key.pins)),
            <<"InputDelayedExactly", key, past, i>>)
  /\ Assert(\A n \in 1..key.pins :
              LET m == ModeOf(st, n) IN
              /\ PinOe(st, n) = (IF m = 1 THEN 1 ELSE IF m = 2 /\ st.out[n] = 0 THEN 1 ELSE 0)
              /\ PinO(st, n) = (IF m = 2 THEN 0 ELSE st.out[n])
              /\ (PinAlt(st, n) = 1 <=> m = 3), <<"ModeTable/AltOnlyInAlternate", key>>)
  \* one pin's fields never disturb another pin: pin n's next output bit and mode depend only on its own fields
  /\ Assert(\A n \in 1..key.pins :
              LET w == st.mux.wstb  d == st.mux.wdat IN
              /\ st'.out[n] = (IF w = 4 /\ d[2 * n - 1] = 1 /\ d[2 * n] = 0 THEN 1
                               ELSE IF w = 4 /\ d[2 * n - 1] = 0 /\ d[2 * n] = 1 THEN 0
                               ELSE IF w = 3 THEN d[n] ELSE st.out[n])
              /\ (w # 1 => ModeOf(st', n) = ModeOf(st, n))
              /\ (w = 1 => ModeOf(st', n) = d[2 * n - 1] + 2 * d[2 * n]), <<"SetClrCodes/Independence", key, st>>)
NeverOpenDrain == \A n \in 1..key.pins : ModeOf(st, n) # 2      \* vacuity witness
====
