---- MODULE CsrShadow ----
(* WHITE-BOX model (never gating): the shadow-chunk hash of csr.Multiplexer._Shadow as the code   *)
(* has it today - decode_address, encode_offset and the doubling loop of prepare() with the bound  *)
(* introduced by the fix "elaboration recursed without bound".  It pins implementation choices a   *)
(* maintainer is free to change, so a disagreement with the code is reported as MODEL DRIFT in the *)
(* evidence, never as a violation.  What TLC establishes on it, for every layout of <= 3 registers *)
(* in a 16-address space and every sharing limit:                                                  *)
(*   RoundTrip   encode_offset(decode_address(a)) = a  for every chunk address of every register   *)
(*   NoSelfAlias two chunks of one register never share a shadow chunk                              *)
(*   Saturation  once the shadow covers every address bit, doubling it changes nothing: the        *)
(*               refusal raised at that size is justified and no satisfiable limit is refused      *)
(*   Terminates  the loop reaches "balanced" or "refused" after at most log2 steps                  *)
EXTENDS Util, Integers, TLC, Json
CONSTANTS MaxAddr, Export
VARIABLES lay, lim

RegSize(r) == Pow2(CeilLog2(r.stop - r.start))
\* reg_range.start & self_mask & ~reg_mask | addr & reg_mask     (size >= RegSize(r), both powers of two)
Decode(a, r, size) == ((r.start % size) - ((r.start % size) % RegSize(r))) + (a % RegSize(r))
Encode(off, r) == r.start + ((off + RegSize(r) * MaxAddr - r.start) % RegSize(r))
Chunks(r) == r.start..(r.stop - 1)
Users(l, size, off) == {<<k, a>> \in UNION {{<<k, a>> : a \in Chunks(l[k])} : k \in 1..Len(l)} : Decode(a, l[k], size) = off}
\* prepare(): balanced iff no chunk offset is used by more than overlaps + 1 chunk addresses
Balanced(l, size, ov) == \A off \in 0..(size - 1) : Cardinality(Users(l, size, off)) <= ov + 1
MinSize(l) == MaxOf({1} \cup {RegSize(l[k]) : k \in 1..Len(l)})
Bound(l) == Pow2(CeilLog2(MaxOf({l[k].stop : k \in 1..Len(l)})))
RECURSIVE Prepare(_, _, _, _)
\* -> [size, steps] or size = 0 for "refused"
Prepare(l, size, ov, steps) ==
  IF Balanced(l, size, ov) THEN [size |-> size, steps |-> steps]
  ELSE IF size > Bound(l) THEN [size |-> 0, steps |-> steps]
  ELSE Prepare(l, size * 2, ov, steps + 1)
Limit(l, lm) == IF lm < 0 THEN Len(l) ELSE lm       \* None -> len(ranges)

Ranges == {[start |-> s, stop |-> e] : s \in 0..(MaxAddr - 1), e \in 1..MaxAddr}
Layouts == UNION {{l \in [1..n -> {r \in Ranges : r.start < r.stop /\ r.stop - r.start <= 5}] :
                     \A i \in 1..(n - 1) : l[i].stop <= l[i + 1].start} : n \in 1..3}
Init == lay \in Layouts /\ lim \in {-1, 0, 1, 2}
Next == UNCHANGED <<lay, lim>>
Spec == Init /\ [][Next]_<<lay, lim>>

Res == Prepare(lay, MinSize(lay), Limit(lay, lim), 0)
RoundTrip == \A k \in 1..Len(lay) : \A a \in Chunks(lay[k]) : \A sz \in {MinSize(lay), 2 * MinSize(lay), 16 * MinSize(lay)} :
               Encode(Decode(a, lay[k], sz), lay[k]) = a
NoSelfAlias == \A k \in 1..Len(lay) : \A a, b \in Chunks(lay[k]) : a # b => Decode(a, lay[k], 64) # Decode(b, lay[k], 64)
Saturation == LET s0 == 2 * Bound(lay) IN
              \A m \in {2, 4, 8} : Balanced(lay, s0 * m, Limit(lay, lim)) = Balanced(lay, s0, Limit(lay, lim))
Terminates == Res.steps <= CeilLog2(2 * Bound(lay)) + 1
RefusedOnlyIfInherent == Res.size = 0 => ~Balanced(lay, 8 * Bound(lay), Limit(lay, lim))
NeverRefusedWithoutLimit == lim < 0 => Res.size # 0
Log == IF Export THEN PrintT(<<"SHADOW", ToJson([lay |-> lay, lim |-> lim, size |-> Res.size])>>) ELSE TRUE
====
