---- MODULE WbDecoder ----
(* wishbone.Decoder (property C07): purely combinational.                                       *)
(* cfg = [aw |-> word-address width, g |-> granules per word (data_width / granularity),         *)
(*        feat |-> [err, rty, stall, lock, cti, bte |-> 0/1],                                    *)
(*        subs |-> << [dense |-> 0/1, start, span |-> window in units of the decoder's memory     *)
(*                     map (= granules), aw |-> subordinate word-address width, feat |-> ...] >>]  *)
(*       Domain of C07: dense windows between buses of equal granularity, or sparse windows;     *)
(*       (a sparse window may be narrower than one decoder word, see WSel).                      *)
(* in  = [adr, cyc, stb, we, lock, cti, bte, sel |-> bits(g), dat_w |-> bytes,                    *)
(*        subs |-> << [ack, err, rty, stall, dat_r |-> bytes] >>]   responses of each subordinate *)
(* obs = [ack, err, rty, stall, dat_r |-> bytes,                                                 *)
(*        subs |-> << [cyc, stb, we, adr, lock, cti, bte, sel |-> bits, dat_w |-> bytes] >>]       *)
EXTENDS Util

WdInit(cfg) == [x |-> 0]
WdStep(cfg, st, in) == st
NS(cfg) == Len(cfg.subs)
\* the window of subordinate k contains (part of) word adr.  Windows are at least one word wide and word-aligned,
\* except sparse windows onto subordinates with fewer addresses than a word has granules: several of those can
\* lie in ONE word, and then "at most one subordinate sees the cycle" still holds - the lowest one is selected
WOwns(cfg, k, adr) == /\ cfg.subs[k].start < (adr + 1) * cfg.g
                      /\ adr * cfg.g < cfg.subs[k].start + cfg.subs[k].span
WSel(cfg, adr) == LET own == {k \in 1..NS(cfg) : WOwns(cfg, k, adr)} IN
                  IF own = {} THEN {}
                  ELSE {CHOOSE k \in own : \A j \in own : cfg.subs[k].start <= cfg.subs[j].start}
\* environment assumption of C07: subordinates respond only while selected
Behaved(cfg, in) == \A k \in 1..NS(cfg) :
   (k \notin WSel(cfg, in.adr) \/ in.cyc = 0) =>
       in.subs[k].ack = 0 /\ in.subs[k].err = 0 /\ in.subs[k].rty = 0 /\ in.subs[k].stall = 0
Opt(cfg, in, f) == IF cfg.feat[f] = 1 THEN in[f] ELSE 0
ZeroExt(v, n) == [b \in 1..n |-> IF b <= Len(v) THEN v[b] ELSE 0]

WdCheck(cfg, st, in, o) ==
  LET sel == WSel(cfg, in.adr) IN
  IF \E k \in 1..NS(cfg) : o.subs[k].cyc # (IF k \in sel THEN in.cyc ELSE 0) THEN "sub.cyc"
  ELSE IF \E k \in sel : o.subs[k].stb # in.stb \/ o.subs[k].we # in.we THEN "sub.stb/we"
  ELSE IF \E k \in sel : cfg.subs[k].feat.lock = 1 /\ o.subs[k].lock # Opt(cfg, in, "lock") THEN "sub.lock"
  ELSE IF \E k \in sel : cfg.subs[k].feat.cti = 1 /\ o.subs[k].cti # Opt(cfg, in, "cti") THEN "sub.cti"
  ELSE IF \E k \in sel : cfg.subs[k].feat.bte = 1 /\ o.subs[k].bte # Opt(cfg, in, "bte") THEN "sub.bte"
  \* dense windows: the offset within the window, unmodified data and select
  ELSE IF \E k \in sel : cfg.subs[k].dense = 1 /\ o.subs[k].adr # in.adr - (cfg.subs[k].start \div cfg.g) THEN "sub.adr"
  ELSE IF \E k \in sel : cfg.subs[k].dense = 1 /\ o.subs[k].dat_w # in.dat_w THEN "sub.dat_w"
  ELSE IF \E k \in sel : cfg.subs[k].dense = 1 /\ o.subs[k].sel # in.sel THEN "sub.sel"
  ELSE IF ~Behaved(cfg, in) THEN "none"            \* the property says nothing about the responses
  ELSE IF sel = {} THEN
       (IF o.ack # 0 \/ o.err # 0 \/ o.rty # 0 \/ o.stall # 0 THEN "response with nobody selected"
        ELSE IF o.dat_r # Zeros(Len(o.dat_r)) THEN "dat_r with nobody selected" ELSE "none")
  ELSE LET k == CHOOSE k \in sel : TRUE
           r == in.subs[k] IN
       IF o.ack # r.ack THEN "ack"
       ELSE IF cfg.feat.err = 1 /\ o.err # (IF cfg.subs[k].feat.err = 1 THEN r.err ELSE 0) THEN "err"
       ELSE IF cfg.feat.rty = 1 /\ o.rty # (IF cfg.subs[k].feat.rty = 1 THEN r.rty ELSE 0) THEN "rty"
       ELSE IF cfg.feat.stall = 1 /\ o.stall # (IF cfg.subs[k].feat.stall = 1 THEN r.stall ELSE 0) THEN "stall"
       ELSE IF o.dat_r # ZeroExt(r.dat_r, Len(o.dat_r)) THEN "dat_r"
       ELSE "none"
====
