---- MODULE IrqHandler_MC ----
(* What the C13/C14 clauses are FOR: an interrupt handler that follows the documented protocol   *)
(* of csr.event.EventMonitor never loses work.                                                   *)
(*                                                                                                *)
(* The hardware side is CsrEventMon (CsrMux o EventMon, the specification the real monitor is     *)
(* validated against cycle by cycle).  The software side is a handler process that talks to it    *)
(* only through the CSR bus, one bus action per clock cycle, and may stall for any number of      *)
(* cycles between two actions (go = 0):                                                           *)
(*     setup : write the mask key.en to `enable`, chunk by chunk                                   *)
(*     idle  : wait for irq                                                                        *)
(*     read  : read `pending` chunk by chunk (r_data is latched in the cycle after each strobe)    *)
(*     ack   : write (snapshot AND en) to `pending`  - write-one-to-clear                          *)
(*     svc   : serve every source in (snapshot AND en)                                             *)
(* AckFirst = TRUE is the documented order read-ack-svc; AckFirst = FALSE (read-svc-ack) is the    *)
(* classic lost-interrupt race and must be REFUTED by TLC (it is the vacuity witness).             *)
(*                                                                                                *)
(* The device side: each source has "work outstanding" (dirty).  Work arrives at any cycle.        *)
(* A level source holds its line high while work is outstanding; an edge source may move its       *)
(* line freely and work arrives exactly with the edge that its mode names.                         *)
(*                                                                                                *)
(* NoLostWork (invariant): outstanding work of an enabled source is always either still visible   *)
(* in `pending` (so irq is high) or held in the snapshot of a handler round that has not served    *)
(* yet.  This needs, together: trigger-beats-clear in the same cycle (C13), write-one-to-clear of  *)
(* exactly the written ones and zeros clearing nothing (C14), the atomic snapshot of a multi-chunk *)
(* read and the atomic multi-chunk write (C04/C05), and irq = OR(enable AND pending).             *)
(* Served (liveness, handler weakly fair): outstanding work of an enabled source is eventually    *)
(* served, whatever the sources do.                                                               *)
EXTENDS CsrEventMon, Integers, TLC
CONSTANTS MaxN, AckFirst, Modes
VARIABLES key, st, pc, snap, dirty, svcd, lastin, tick
vars == <<key, st, pc, snap, dirty, svcd, lastin, tick>>

Keys == UNION {[n : {n}, dw : {1, 2}, modes : [1..n -> Modes], en : BitVecs(n)] : n \in 1..MaxN}
RS == Max2(CeilDiv(key.n, key.dw), 1)
cfg == [n |-> key.n, dw |-> key.dw, al |-> 0, modes |-> key.modes,
        regs |-> << [start |-> 0, stop |-> RS], [start |-> RS, stop |-> 2 * RS] >>]
NCh == CeilDiv(key.n, key.dw)
EnAddr(c) == c
PendAddr(c) == RS + c

And(a, b) == [k \in 1..Len(a) |-> IF a[k] = 1 /\ b[k] = 1 THEN 1 ELSE 0]
\* the snapshot with the chunk that is on r_data in this cycle (strobed one cycle ago) merged in
SnapNow == IF pc.cap < 0 THEN snap
           ELSE [k \in 1..key.n |-> IF (k - 1) \div key.dw = pc.cap THEN st.mux.rd[((k - 1) % key.dw) + 1] ELSE snap[k]]
Mask == And(SnapNow, key.en)

Idle == [addr |-> 0, r_stb |-> 0, w_stb |-> 0, w_data |-> Zeros(key.dw)]
Rd(a) == [addr |-> a, r_stb |-> 1, w_stb |-> 0, w_data |-> Zeros(key.dw)]
Wr(a, d) == [addr |-> a, r_stb |-> 0, w_stb |-> 1, w_data |-> d]
AfterRead == IF AckFirst THEN "ack" ELSE "svc"
AfterAck  == IF AckFirst THEN "svc" ELSE "idle"
AfterSvc  == IF AckFirst THEN "idle" ELSE "ack"
NextC(op, c, after) == IF c + 1 < NCh THEN [op |-> op, c |-> c + 1] ELSE [op |-> after, c |-> 0]

\* the handler's move in this cycle: [bus |-> bus inputs, pc |-> next op/chunk, cap |-> chunk strobed now or -1, svc |-> 0/1]
Move(go) ==
  IF go = 0 THEN [bus |-> Idle, nxt |-> [op |-> pc.op, c |-> pc.c], cap |-> -1, svc |-> 0]
  ELSE CASE pc.op = "setup" -> [bus |-> Wr(EnAddr(pc.c), ChunkOf(key.en, pc.c, key.dw)),
                                nxt |-> NextC("setup", pc.c, "idle"), cap |-> -1, svc |-> 0]
         [] pc.op = "idle"  -> IF Irq(cfg, st) = 1
                               THEN [bus |-> Rd(PendAddr(0)), nxt |-> NextC("read", 0, AfterRead), cap |-> 0, svc |-> 0]
                               ELSE [bus |-> Idle, nxt |-> [op |-> "idle", c |-> 0], cap |-> -1, svc |-> 0]
         [] pc.op = "read"  -> [bus |-> Rd(PendAddr(pc.c)), nxt |-> NextC("read", pc.c, AfterRead), cap |-> pc.c, svc |-> 0]
         [] pc.op = "ack"   -> [bus |-> Wr(PendAddr(pc.c), ChunkOf(Mask, pc.c, key.dw)),
                                nxt |-> NextC("ack", pc.c, AfterAck), cap |-> -1, svc |-> 0]
         [] pc.op = "svc"   -> [bus |-> Idle, nxt |-> [op |-> AfterSvc, c |-> 0], cap |-> -1, svc |-> 1]

\* source lines of this cycle: level sources show outstanding or arriving work, edge sources are free
Lines == {l \in BitVecs(key.n) : \A b \in 1..key.n : key.modes[b] = "level" => (dirty[b] = 1 => l[b] = 1)}
Arrive(l, b) == IF key.modes[b] = "level" THEN Bit(l[b] = 1 /\ dirty[b] = 0)
                ELSE Trg(EvCfg(cfg), st.ev, [i |-> l], b)

Step(go, l) ==
  LET mv == Move(go)
      in == [addr |-> mv.bus.addr, r_stb |-> mv.bus.r_stb, w_stb |-> mv.bus.w_stb, w_data |-> mv.bus.w_data, i |-> l]
      m  == Mask
  IN /\ st' = EmonStep(cfg, st, in)
     /\ pc' = [op |-> mv.nxt.op, c |-> mv.nxt.c, cap |-> mv.cap]
     /\ snap' = IF mv.nxt.op = "idle" THEN Zeros(key.n) ELSE SnapNow
     /\ dirty' = [b \in 1..key.n |-> IF Arrive(l, b) = 1 THEN 1
                                     ELSE IF mv.svc = 1 /\ m[b] = 1 THEN 0 ELSE dirty[b]]
     /\ svcd' = [b \in 1..key.n |-> IF mv.svc = 1 /\ m[b] = 1 THEN 1 ELSE 0]
     /\ lastin' = in
     /\ tick' = 1 - tick
     /\ UNCHANGED key

Init == /\ key \in Keys /\ st = EmonInit(cfg) /\ pc = [op |-> "setup", c |-> 0, cap |-> -1]
        /\ snap = Zeros(key.n) /\ dirty = Zeros(key.n) /\ svcd = Zeros(key.n) /\ lastin = <<>> /\ tick = 0
Go   == \E l \in Lines : Step(1, l)
Next == \E go \in {0, 1} : \E l \in Lines : Step(go, l)
Spec == Init /\ [][Next]_vars
FairSpec == Spec /\ WF_vars(Go)
View == <<key, st, pc, snap, dirty, svcd>>
LiveView == <<key, st, pc, snap, dirty, svcd, tick>>

\* ---- properties ----
NeverLost == st.lost = 0
\* ops in which the current round still owes a service to the sources in its snapshot
Owes == IF AckFirst THEN pc.op \in {"ack", "svc"} ELSE pc.op = "svc"
NoLostWork ==
  \A b \in 1..key.n :
    (st.enable[b] = 1 /\ key.en[b] = 1 /\ dirty[b] = 1) =>
       \/ st.ev.pending[b] = 1
       \/ (Owes /\ Mask[b] = 1)
\* consequently: a quiet system (irq low, handler idle) has no outstanding work of enabled sources
QuietMeansDone ==
  (pc.op = "idle" /\ Irq(cfg, st) = 0) => \A b \in 1..key.n : (st.enable[b] = 1 /\ key.en[b] = 1) => dirty[b] = 0
\* the handler only ever clears what it has seen: a pending bit of a DISABLED source survives every round
DisabledUntouched ==
  [][\A b \in 1..key.n : (key.en[b] = 0 /\ st.ev.pending[b] = 1) => st'.ev.pending[b] = 1]_vars
\* the snapshot the handler acts on is a value `pending` really had at the first read strobe (no torn reads)
Served == \A b \in 1..MaxN :
            (b <= key.n /\ st.enable[b] = 1 /\ key.en[b] = 1 /\ dirty[b] = 1) ~> (b <= key.n /\ svcd[b] = 1)
\* witnesses for vacuity: rounds do happen, acknowledges do clear
NoRound == [][~(pc.op = "svc" /\ pc'.op # "svc" /\ \E b \in 1..key.n : svcd'[b] = 1)]_vars
====
