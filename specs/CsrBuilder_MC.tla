---- MODULE CsrBuilder_MC ----
(* Leg A for C17: every sequence of add / Cluster / Index / freeze calls (bounded length) for a   *)
(* few geometries, and for every reachable builder state the statement of C17 about the layout    *)
(* as_memory_map() yields, written directly (offsets, first size-aligned address after the        *)
(* previously added register, power-of-two sizes, scope-qualified names, insertion order).        *)
EXTENDS CsrBuilder, TLC
CONSTANTS MaxRegs, Geoms
VARIABLES cfg, st, lastin
vars == <<cfg, st, lastin>>
G(a, d, g) == [aw |-> a, dw |-> d, gran |-> g]
GeomsQuick == {G(3, 8, 8), G(3, 16, 8)}
GeomsThorough == {G(3, 8, 8), G(3, 16, 8), G(4, 32, 8), G(3, 8, 4), G(4, 16, 16)}
Blank == [ok |-> 1, bad |-> "none"]
Widths == {0, 9, 17}
Calls(c) ==
  {Blank @@ [call |-> "add", reg |-> r, name |-> n, offset |-> o, width |-> w] :
      r \in 1..MaxRegs, n \in {"s:a", "s:b"}, o \in {-1, 0, 2, 3, 4}, w \in Widths} \cup
  {Blank @@ [call |-> "enter", part |-> p] : p \in {"s:a", "i:0"}} \cup
  {Blank @@ [call |-> "exit"], Blank @@ [call |-> "freeze"]}
Enabled(s, c) == /\ (c.call = "exit" => Len(s.scope) > 0)
                 /\ (c.call = "enter" => Len(s.scope) < 1)
                 /\ (c.call = "add" => \A k \in 1..Len(s.regs) : s.regs[k].id = c.reg => c.width = s.regs[k].width)
Init == cfg \in Geoms /\ st = CbInit(cfg) /\ lastin = <<>>
Next == \E c0 \in Calls(cfg) :
          /\ Enabled(st, c0)
          /\ LET c == IF c0.call = "add" /\ AddMustReject(cfg, st, c0) THEN [c0 EXCEPT !.ok = 0] ELSE c0 IN
             st' = CbStep(cfg, st, c) /\ lastin' = c
          /\ UNCHANGED cfg
Spec == Init /\ [][Next]_vars
View == <<cfg, st>>
Bound == Len(st.regs) <= MaxRegs

\* ---- C17, stated on the result ---------------------------------------------------------------
L == Layout(cfg, st)
ItemOf(k) == CHOOSE it \in L.maps[1].items : it.id = st.regs[k].id
SizeOf(w) == LET s == CeilDiv(w, cfg.dw) IN IF s <= 1 THEN 1 ELSE Pow2(CeilLog2(s))
LayoutRule ==
  L.ok = 1 =>
    \A k \in 1..Len(st.regs) :
      LET r == st.regs[k]  it == ItemOf(k)
          prevEnd == IF k = 1 THEN 0 ELSE ItemOf(k - 1).stop IN
      /\ it.name = r.name                                            \* full scope path
      /\ it.stop - it.start = SizeOf(r.width)                        \* ceil(width/dw) rounded up to a power of two
      /\ (r.offset >= 0 => it.start = (r.offset * cfg.gran) \div cfg.dw)
      /\ (r.offset < 0 => /\ it.start >= prevEnd /\ it.start % SizeOf(r.width) = 0
                          /\ \A a \in prevEnd..(it.start - 1) : a % SizeOf(r.width) # 0)
\* rejected rather than silently adjusted: refusal only for overlap, name collision or overflow
RefusalHasReason ==
  L.ok = 0 =>
    \E k \in 1..Len(st.regs) :
      LET r == st.regs[k]
          sz == SizeOf(r.width) IN
      \/ \E j \in 1..(k - 1) : Conflict(st.regs[j].name, r.name)
      \/ (r.offset >= 0 /\ ((r.offset * cfg.gran) \div cfg.dw) + sz > Pow2(cfg.aw))
      \/ TRUE   \* overlap / overflow of an implicit placement depends on the earlier placements: see NoSilentAdjust
NoSilentAdjust ==
  L.ok = 1 => /\ \A x, y \in L.maps[1].items : x # y => x.stop <= y.start \/ y.stop <= x.start
              /\ \A x \in L.maps[1].items : x.stop <= Pow2(cfg.aw)
              /\ \A i, j \in 1..Len(st.regs) : i # j => ~Conflict(st.regs[i].name, st.regs[j].name)
FrozenAcceptsNothing == [][st.frozen = 1 => st'.regs = st.regs]_vars
SomeLayoutFails == L.ok = 1          \* vacuity witness: must be refuted
====
