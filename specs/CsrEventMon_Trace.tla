---- MODULE CsrEventMon_Trace ----
EXTENDS CsrEventMon, TraceRunner
====
