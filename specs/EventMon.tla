---- MODULE EventMon ----
(* event.Monitor (property C13).                                                             *)
(* cfg = [n |-> number of sources, modes |-> << "level" | "rise" | "fall" >>]                 *)
(*       modes[k] is the trigger mode of the k-th FIRST-ADDED source of the event map.        *)
(* st  = [pending |-> bits, prev |-> bits]   (prev: last cycle's input, edge modes only)      *)
(* in  = [i |-> bits (source input lines), enable |-> bits, clear |-> bits]                   *)
EXTENDS Util

EvInit(cfg) == [pending |-> Zeros(cfg.n), prev |-> Zeros(cfg.n)]

Trg(cfg, st, in, k) ==
  CASE cfg.modes[k] = "level" -> in.i[k]
    [] cfg.modes[k] = "rise"  -> IF st.prev[k] = 0 /\ in.i[k] = 1 THEN 1 ELSE 0
    [] cfg.modes[k] = "fall"  -> IF st.prev[k] = 1 /\ in.i[k] = 0 THEN 1 ELSE 0

EvStep(cfg, st, in) ==
  [pending |-> [k \in 1..cfg.n |-> IF Trg(cfg, st, in, k) = 1 THEN 1
                                   ELSE IF in.clear[k] = 1 THEN 0 ELSE st.pending[k]],
   prev    |-> [k \in 1..cfg.n |-> IF cfg.modes[k] = "level" THEN 0 ELSE in.i[k]]]

EvOut(cfg, st, in) ==
  [trg     |-> [k \in 1..cfg.n |-> Trg(cfg, st, in, k)],
   pending |-> st.pending,
   src_i   |-> Bit(\E k \in 1..cfg.n : in.enable[k] = 1 /\ st.pending[k] = 1)]

EvCheck(cfg, st, in, o) ==
  LET e == EvOut(cfg, st, in) IN
  IF o.trg # e.trg THEN "source.trg"
  ELSE IF o.pending # e.pending THEN "pending"
  ELSE IF o.src_i # e.src_i THEN "src.i"
  ELSE "none"
====
