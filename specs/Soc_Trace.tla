---- MODULE Soc_Trace ----
EXTENDS Soc, TraceRunner
====
