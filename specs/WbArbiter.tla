---- MODULE WbArbiter ----
(* Wishbone round-robin arbiter: what its users may rely on (properties C08 and C09).      *)
(*                                                                                         *)
(* cfg  = [n     |-> number of initiators (>= 1),                                          *)
(*         feat  |-> [err, rty, stall, lock, cti, bte |-> 0/1]   features of the shared bus *)
(*         intr  |-> << [feat |-> (same record), ratio |-> intr.granularity/arb.granularity] >> ] *)
(* st   = [grant |-> 1..n]                     the only state: who owns the shared bus     *)
(* in   = [intr |-> << [cyc, stb, we, lock, cti, bte, adr, dat_w, sel] >>,                 *)
(*         tgt  |-> [ack, err, rty, stall, dat_r]]        (absent optional signals are 0)  *)
(* One step = one rising clock edge.                                                       *)
EXTENDS Util, WbArbiterAbsOps

ArbInit(cfg) == [grant |-> 1]

\* value of an optional request signal of initiator k as seen on the shared bus
OptReq(cfg, in, k, f) == IF cfg.feat[f] = 1 /\ cfg.intr[k].feat[f] = 1 THEN in.intr[k][f] ELSE 0

\* the owner's bus cycle is in progress
Busy(cfg, st, in) ==
  LET g == st.grant IN
  /\ in.intr[g].cyc = 1
  /\ (cfg.feat.lock = 1 => (OptReq(cfg, in, g, "lock") = 1 \/ in.intr[g].stb = 1))

\* distances 1..n-1 (cyclically after the owner) at which somebody requests
After(cfg, g, in) == {k \in 1..(cfg.n - 1) : in.intr[((g - 1 + k) % cfg.n) + 1].cyc = 1}

NextGrant(cfg, st, in) ==
  LET g == st.grant IN
  IF Busy(cfg, st, in) \/ After(cfg, g, in) = {} THEN g
  ELSE ((g - 1 + MinOf(After(cfg, g, in))) % cfg.n) + 1

ArbStep(cfg, st, in) == [grant |-> NextGrant(cfg, st, in)]
\* the same step seen through the abstract round-robin relation that TLAPS proves starvation-free for
\* EVERY number of initiators (WbArbiterAbs.tla, initiators numbered from 0 there)
AbsGrantOK(cfg, st, in) ==
  GrantRel(cfg.n, st.grant - 1, {k - 1 : k \in {j \in 1..cfg.n : in.intr[j].cyc = 1}},
           Busy(cfg, st, in), NextGrant(cfg, st, in) - 1)

\* ---- outputs (Mealy) ----
ArbBus(cfg, st, in) ==
  LET g == st.grant
      r == in.intr[g] IN
  [adr |-> r.adr, dat_w |-> r.dat_w, we |-> r.we, stb |-> r.stb, cyc |-> r.cyc,
   sel  |-> FanOut(r.sel, cfg.intr[g].ratio),
   lock |-> OptReq(cfg, in, g, "lock"),
   cti  |-> OptReq(cfg, in, g, "cti"),
   bte  |-> OptReq(cfg, in, g, "bte")]

OptResp(cfg, in, f) == IF cfg.feat[f] = 1 THEN in.tgt[f] ELSE 0

ArbIntr(cfg, st, in, k) ==
  LET own == (k = st.grant) IN
  [ack   |-> IF own THEN in.tgt.ack ELSE 0,
   err   |-> IF own THEN OptResp(cfg, in, "err") ELSE 0,
   rty   |-> IF own THEN OptResp(cfg, in, "rty") ELSE 0,
   stall |-> IF own THEN (IF cfg.feat.stall = 1 THEN in.tgt.stall ELSE 1 - in.tgt.ack) ELSE 1,
   dat_r |-> in.tgt.dat_r]

\* ---- total check of one observed cycle: name of the first violated clause ----
ArbCheck(cfg, st, in, o) ==
  LET b == ArbBus(cfg, st, in) IN
  IF o.bus.cyc # b.cyc THEN "bus.cyc"
  ELSE IF o.bus.stb # b.stb THEN "bus.stb"
  ELSE IF o.bus.we # b.we THEN "bus.we"
  ELSE IF o.bus.adr # b.adr THEN "bus.adr"
  ELSE IF o.bus.dat_w # b.dat_w THEN "bus.dat_w"
  ELSE IF o.bus.sel # b.sel THEN "bus.sel"
  ELSE IF cfg.feat.lock = 1 /\ o.bus.lock # b.lock THEN "bus.lock"
  ELSE IF cfg.feat.cti = 1 /\ o.bus.cti # b.cti THEN "bus.cti"
  ELSE IF cfg.feat.bte = 1 /\ o.bus.bte # b.bte THEN "bus.bte"
  ELSE IF \E k \in 1..cfg.n : o.intr[k].ack # ArbIntr(cfg, st, in, k).ack THEN "intr.ack"
  ELSE IF \E k \in 1..cfg.n : cfg.intr[k].feat.err = 1
                              /\ o.intr[k].err # ArbIntr(cfg, st, in, k).err THEN "intr.err"
  ELSE IF \E k \in 1..cfg.n : cfg.intr[k].feat.rty = 1
                              /\ o.intr[k].rty # ArbIntr(cfg, st, in, k).rty THEN "intr.rty"
  ELSE IF \E k \in 1..cfg.n : cfg.intr[k].feat.stall = 1
                              /\ o.intr[k].stall # ArbIntr(cfg, st, in, k).stall THEN "intr.stall"
  ELSE IF \E k \in 1..cfg.n : o.intr[k].dat_r # in.tgt.dat_r THEN "intr.dat_r"
  ELSE IF ~AbsGrantOK(cfg, st, in) THEN "abstract round-robin step (WbArbiterAbs)"
  ELSE "none"
====
