---- MODULE WbArbiterImpl_MC ----
(* C09 checked directly on the IMPLEMENTATION's transition table.                           *)
(* The edge tour over the real wishbone.Arbiter observes, for every owner g, every request  *)
(* mask and both values of "the owner holds its cycle", which initiator owns the bus after  *)
(* the next clock edge.  The file named by TABLE_FILE holds these tables:                   *)
(*   [n, haslock, next[g][mask + 1][hold + 1] = g']  (mask bit k-1 = initiator k asserts cyc) *)
(* Here TLC searches each table's state graph for a cycle along which some initiator        *)
(* requests continuously, the bus is released infinitely often and that initiator is never  *)
(* granted - the literal wording of the property.                                           *)
EXTENDS Naturals, Sequences, TLC, Json, IOUtils
Tables == JsonDeserialize(IOEnv.TABLE_FILE)
VARIABLES tid, grant, mask, hold, wait, tick
vars == <<tid, grant, mask, hold, wait, tick>>

T == Tables[tid]
N == T.n
Idx == 1..N
Req(m, k) == (m \div (2 ^ (k - 1))) % 2
IsBusy == Req(mask, grant) = 1 /\ (T.haslock = 1 => hold = 1)
Init == /\ tid \in 1..Len(Tables)
        /\ grant = 1 /\ mask \in 0..(2 ^ Tables[tid].n - 1) /\ hold \in {0, 1}
        /\ wait = [k \in 1..Tables[tid].n |-> 0] /\ tick = FALSE
Next == /\ tick' = ~tick
        /\ grant' = T.next[grant][mask + 1][hold + 1]
        /\ mask' \in 0..(2 ^ N - 1)
        /\ hold' \in {0, 1}
        /\ wait' = [k \in Idx |->
                      IF Req(mask, k) = 0 \/ grant' = k \/ grant = k THEN 0
                      ELSE IF grant' # grant THEN wait[k] + 1 ELSE wait[k]]
        /\ UNCHANGED tid
Spec == Init /\ [][Next]_vars /\ WF_vars(Next)
BoundedWait == \A k \in Idx : wait[k] <= N - 1
NoStarvation == \A k \in 1..4 : k \in Idx =>
                  (([]<>(~IsBusy) /\ <>[](Req(mask, k) = 1)) => []<>(grant = k))
====
