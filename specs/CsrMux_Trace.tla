---- MODULE CsrMux_Trace ----
EXTENDS CsrMux, TraceRunner
====
