---- MODULE WbArbiterAbs_Proof ----
(* TLAPS: bounded waiting of the round-robin arbiter for EVERY number of initiators.               *)
EXTENDS WbArbiterAbs, TLAPS

LEMMA AheadIx == \A g \in Ix : \A k \in 0..(N - 1) : RAhead(N, g, k) \in Ix
  BY NOK DEF RAhead, Ix
LEMMA DistIx == \A g \in Ix : \A w \in Ix : RDist(N, g, w) \in 0..(N - 1) /\ (w # g => RDist(N, g, w) >= 1)
  BY NOK DEF RDist, Ix
LEMMA AheadDist == \A g \in Ix : \A w \in Ix : RAhead(N, g, RDist(N, g, w)) = w
  BY NOK DEF RAhead, RDist, Ix
\* moving the owner k < Dist places ahead brings it k places closer
LEMMA Closer == \A g \in Ix : \A w \in Ix : \A k \in 0..(N - 1) :
                  k < RDist(N, g, w) => RDist(N, RAhead(N, g, k), w) = RDist(N, g, w) - k
  BY NOK DEF RAhead, RDist, Ix
\* seen from k places ahead, the old owner is N - k places away
LEMMA Behind == \A g \in Ix : \A k \in 1..(N - 1) : RDist(N, RAhead(N, g, k), g) = N - k
  BY NOK DEF RAhead, RDist, Ix
LEMMA AheadInj == \A g \in Ix : \A j \in 0..(N - 1) : \A k \in 0..(N - 1) :
                    RAhead(N, g, j) = RAhead(N, g, k) => j = k
  BY NOK DEF RAhead, Ix

LEMMA RInitInv == RInit => RInv
  BY NOK DEF RInit, RInv, RTypeOK, Rank, Ix

LEMMA RStepInv == RInv /\ [RNext]_rvars => RInv'
<1> SUFFICES ASSUME RInv, [RNext]_rvars PROVE RInv'
  OBVIOUS
<1>1. CASE UNCHANGED rvars
  BY <1>1 DEF RInv, RTypeOK, Rank, rvars
<1>2. CASE RNext
  <2> PICK R \in SUBSET Ix, busy \in BOOLEAN : RStep(R, busy)
    BY <1>2 DEF RNext
  <2> DEFINE g == grant
  <2>0. g \in Ix /\ passes \in [Ix -> Nat]
    BY DEF RInv, RTypeOK
  <2>p. passes' = [w \in Ix |-> IF w \notin R \/ grant' = w THEN 0
                                ELSE IF grant' # grant THEN passes[w] + 1 ELSE passes[w]]
    BY DEF RStep
  <2>a. CASE grant' = g
    <3>1. RTypeOK'
      BY <2>0, <2>a, <2>p DEF RTypeOK
    <3>2. Rank'
      <4> SUFFICES ASSUME NEW w \in Ix
                   PROVE /\ w = grant' => passes'[w] = 0
                         /\ w # grant' => passes'[w] = 0 \/ passes'[w] + RDist(N, grant', w) <= N
        BY DEF Rank
      <4>1. passes'[w] = IF w \notin R \/ g = w THEN 0 ELSE passes[w]
        BY <2>a, <2>p
      <4>2. w # g => passes[w] = 0 \/ passes[w] + RDist(N, g, w) <= N
        BY DEF RInv, Rank
      <4> QED
        BY <4>1, <4>2, <2>a
    <3> QED
      BY <3>1, <3>2 DEF RInv
  <2>b. CASE grant' # g
    <3> PICK k \in 1..(N - 1) : RClosest(N, g, R, k) /\ grant' = RAhead(N, g, k)
      BY <2>b DEF RStep, GrantRel
    <3>0. k \in 0..(N - 1) /\ grant' \in Ix
      BY <2>0, AheadIx
    <3>1. RTypeOK'
      BY <2>0, <3>0, <2>p DEF RTypeOK
    <3>2. Rank'
      <4> SUFFICES ASSUME NEW w \in Ix
                   PROVE /\ w = grant' => passes'[w] = 0
                         /\ w # grant' => passes'[w] = 0 \/ passes'[w] + RDist(N, grant', w) <= N
        BY DEF Rank
      <4>1. passes'[w] = IF w \notin R \/ grant' = w THEN 0 ELSE passes[w] + 1
        BY <2>b, <2>p
      <4>2. CASE w \notin R \/ grant' = w
        BY <4>1, <4>2
      <4>3. CASE w \in R /\ grant' # w /\ w = g
        <5>1. passes[w] = 0
          BY <4>3 DEF RInv, Rank
        <5>2. RDist(N, grant', w) = N - k
          BY <4>3, <2>0, Behind
        <5> QED
          BY <4>1, <4>3, <5>1, <5>2, NOK
      <4>4. CASE w \in R /\ grant' # w /\ w # g
        <5> DEFINE d == RDist(N, g, w)
        <5>1. d \in 1..(N - 1) /\ RAhead(N, g, d) = w
          BY <4>4, <2>0, DistIx, AheadDist
        <5>2. ~(d < k)
          <6> SUFFICES ASSUME d < k PROVE FALSE
            OBVIOUS
          <6>1. d \in 1..(k - 1)
            BY <5>1
          <6>2. RAhead(N, g, d) \notin R
            BY <6>1 DEF RClosest
          <6> QED
            BY <6>2, <5>1, <4>4
        <5>3. d # k
          BY <5>1, <4>4
        <5>4. k < d
          BY <5>1, <5>2, <5>3
        <5>5. RDist(N, grant', w) = d - k
          BY <5>4, <3>0, <2>0, Closer
        <5>6. passes[w] = 0 \/ passes[w] + d <= N
          BY <4>4 DEF RInv, Rank
        <5>7. passes[w] \in Nat
          BY <2>0
        <5> QED
          BY <4>1, <4>4, <5>1, <5>4, <5>5, <5>6, <5>7, NOK
      <4> QED
        BY <4>2, <4>3, <4>4
    <3> QED
      BY <3>1, <3>2 DEF RInv
  <2> QED
    BY <2>a, <2>b
<1> QED
  BY <1>1, <1>2

LEMMA InvBound == RInv => BoundedWait
<1> SUFFICES ASSUME RInv, NEW w \in Ix PROVE passes[w] <= N - 1
  BY DEF BoundedWait
<1>1. grant \in Ix /\ passes[w] \in Nat
  BY DEF RInv, RTypeOK
<1>2. CASE w = grant
  BY <1>2, NOK DEF RInv, Rank
<1>3. CASE w # grant
  <2>1. RDist(N, grant, w) >= 1 /\ RDist(N, grant, w) \in 0..(N - 1)
    BY <1>1, <1>3, DistIx
  <2>2. passes[w] = 0 \/ passes[w] + RDist(N, grant, w) <= N
    BY <1>3 DEF RInv, Rank
  <2> QED
    BY <2>1, <2>2, <1>1, NOK
<1> QED
  BY <1>2, <1>3

THEOREM BoundedWaiting == RSpec => []BoundedWait
<1>1. RSpec => []RInv
  BY RInitInv, RStepInv, PTL DEF RSpec
<1> QED
  BY <1>1, InvBound, PTL
====
