---- MODULE EventMap ----
(* event.EventMap as a sequential object (API half of property C13).                         *)
(* Sources are identified by small integers; 0 stands for an object that is not a Source.    *)
(* st  = [order |-> sequence of source ids in order of FIRST addition, frozen |-> BOOLEAN]    *)
(* in  = [call |-> "add" | "index" | "freeze" | "query", src |-> id]                           *)
(* obs = [ret |-> "ok" | "ValueError" | "TypeError" | "KeyError" | "idx", val |-> index,      *)
(*        sources |-> << <<id, index>> ... >> as reported by sources(), size |-> size]        *)
EXTENDS Util

EmInit(cfg) == [order |-> <<>>, frozen |-> FALSE]
Has(st, s) == \E k \in 1..Len(st.order) : st.order[k] = s
IndexOf(st, s) == (CHOOSE k \in 1..Len(st.order) : st.order[k] = s) - 1

EmStep(cfg, st, in) ==
  IF in.call = "add" /\ ~st.frozen /\ in.src # 0 /\ ~Has(st, in.src)
    THEN [st EXCEPT !.order = Append(st.order, in.src)]
  ELSE IF in.call = "freeze" THEN [st EXCEPT !.frozen = TRUE]
  ELSE st

\* allowed results of a call (a set: where the property leaves the exception class open)
EmRet(cfg, st, in) ==
  CASE in.call = "add" ->
         IF st.frozen /\ in.src = 0 THEN {[ret |-> "ValueError", val |-> 0], [ret |-> "TypeError", val |-> 0]}
         ELSE IF st.frozen THEN {[ret |-> "ValueError", val |-> 0]}
         ELSE IF in.src = 0 THEN {[ret |-> "TypeError", val |-> 0]}
         ELSE {[ret |-> "ok", val |-> 0]}
    [] in.call = "index" ->
         IF in.src = 0 THEN {[ret |-> "TypeError", val |-> 0]}
         ELSE IF Has(st, in.src) THEN {[ret |-> "idx", val |-> IndexOf(st, in.src)]}
         ELSE {[ret |-> "KeyError", val |-> 0]}
    [] OTHER -> {[ret |-> "ok", val |-> 0]}

\* what sources()/size must report AFTER the call
EmView(st) == [k \in 1..Len(st.order) |-> <<st.order[k], k - 1>>]

EmCheck(cfg, st, in, o) ==
  LET st2 == EmStep(cfg, st, in) IN
  IF [ret |-> o.ret, val |-> o.val] \notin EmRet(cfg, st, in) THEN "result"
  ELSE IF o.size # Len(st2.order) THEN "size"
  ELSE IF o.sources # EmView(st2) THEN "sources"
  ELSE "none"
====
