---- MODULE Gpio_Trace ----
EXTENDS Gpio, TraceRunner
====
