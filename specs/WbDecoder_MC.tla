---- MODULE WbDecoder_MC ----
(* Leg A for C07: 3-bit word addresses, 1 or 2 granules per word, <= MaxSubs windows (dense: 2    *)
(* or 4 words; sparse: 2, 4 or 8 granules) in every order, feature subsets, every request and     *)
(* response vector.  The                                                                          *)
(* canonical output (what the generator is documented to emit: pattern = high address bits with  *)
(* the granularity bits stripped) is checked against the declarative statement.                  *)
EXTENDS WbDecoder, TLC, Json
CONSTANTS MaxSubs, Export
VARIABLES key, st, lastin
AW == 3
F(e, s, l, c) == [err |-> e, rty |-> e, stall |-> s, lock |-> l, cti |-> c, bte |-> 0]
DecFeats == {F(e, s, l, c) : e \in {0, 1}, s \in {0, 1}, l \in {0, 1}, c \in {0, 1}}
\* a subordinate may not have a response line the decoder lacks
SubFeats(df) == {f \in DecFeats : f.err <= df.err /\ f.stall <= df.stall /\ f.lock = f.cti}
\* windows in units of the decoder's memory map (granules): a dense window over a subordinate with
\* `aw` word-address bits spans 2^aw words; a sparse window over a one-granule-wide subordinate with
\* `aw` address bits spans 2^aw granules (at least one word)
Win(g) == {[dense |-> 1, aw |-> a, start |-> s * g, span |-> Pow2(a) * g] : a \in {1, 2}, s \in 0..7} \cup
          {[dense |-> 0, aw |-> a, start |-> s, span |-> Pow2(a)] : a \in {1, 2, 3}, s \in 0..15}
OkWin(w, g) == w.start % w.span = 0 /\ w.start + w.span <= Pow2(AW) * g /\ w.span >= g
Disj(a, b) == a.start + a.span <= b.start \/ b.start + b.span <= a.start
Layouts(g) == UNION {{s \in [1..n -> {w \in Win(g) : OkWin(w, g)}] :
                        \A i, j \in 1..n : i # j => Disj(s[i], s[j])} : n \in 0..MaxSubs}
Keys == UNION {{[g |-> g, feat |-> df, wins |-> ws, sf |-> sf] :
                 df \in {F(1, 1, 1, 1), F(0, 0, 0, 0), F(1, 0, 0, 1)}, ws \in Layouts(g), sf \in {"same", "none"}} : g \in {1, 2}}
\* the configuration is derived once per key and carried in the state (cheap transitions)
Full(k) == [aw |-> AW, g |-> k.g, feat |-> k.feat,
            subs |-> [j \in 1..Len(k.wins) |->
                       [dense |-> k.wins[j].dense, aw |-> k.wins[j].aw,
                        start |-> k.wins[j].start, span |-> k.wins[j].span,
                        feat |-> IF k.sf = "same" THEN k.feat ELSE F(0, 0, 0, 0)]]]
cfg == key
N == Len(key.subs)
Resp == [ack : {0, 1}, err : {0, 1}, rty : {0}, stall : {0, 1}, dat_r : {<<0>>, <<1>>}]
Quiet(d) == [ack |-> 0, err |-> 0, rty |-> 0, stall |-> 0, dat_r |-> d]
Inputs == {[adr |-> a, cyc |-> c, stb |-> s, we |-> s, lock |-> l, cti |-> l, bte |-> 0,
            sel |-> [b \in 1..cfg.g |-> s], dat_w |-> <<l>>,
            subs |-> [k \in 1..N |-> IF k \in WSel(cfg, a) /\ c = 1 THEN r ELSE Quiet(d)]] :
            a \in 0..7, c \in {0, 1}, s \in {0, 1}, l \in {0, 1}, r \in Resp, d \in {<<0>>, <<1>>}}
\* the generator's rule: pattern over the map address with the granularity bits stripped
Canon(i) ==
  LET \* address bits of the subordinate's memory map, and the pattern's constant bits compared
      \* against the word address with the granularity bits stripped from the pattern
      maw(k) == IF cfg.subs[k].dense = 1 THEN cfg.subs[k].aw + CeilLog2(cfg.g) ELSE cfg.subs[k].aw
      hit(k) == (i.adr * cfg.g) \div Pow2(maw(k)) = cfg.subs[k].start \div Pow2(maw(k))
      sel == {k \in 1..N : hit(k)} IN
  [ack |-> IF \E k \in 1..N : i.subs[k].ack = 1 THEN 1 ELSE 0,
   err |-> IF \E k \in 1..N : cfg.subs[k].feat.err = 1 /\ i.subs[k].err = 1 THEN 1 ELSE 0,
   rty |-> 0,
   stall |-> IF \E k \in 1..N : cfg.subs[k].feat.stall = 1 /\ i.subs[k].stall = 1 THEN 1 ELSE 0,
   dat_r |-> IF sel = {} THEN <<0>> ELSE i.subs[CHOOSE k \in sel : TRUE].dat_r,
   subs |-> [k \in 1..N |-> [cyc |-> IF hit(k) THEN i.cyc ELSE 0, stb |-> i.stb, we |-> i.we,
                             adr |-> IF cfg.subs[k].dense = 1 THEN i.adr % Pow2(cfg.subs[k].aw) ELSE 0,
                             lock |-> Opt(cfg, i, "lock"), cti |-> Opt(cfg, i, "cti"), bte |-> Opt(cfg, i, "bte"),
                             sel |-> i.sel, dat_w |-> i.dat_w]]]
Init == /\ key \in {Full(k) : k \in Keys} /\ st = WdInit(cfg) /\ lastin = <<>>
        /\ IF Export THEN PrintT(<<"CFG", ToJson([key |-> key, cfg |-> cfg, s0 |-> st])>>) ELSE TRUE
Next == \E i \in Inputs : st' = st /\ lastin' = i /\ UNCHANGED key
Spec == Init /\ [][Next]_<<key, st, lastin>>
View == <<key, st>>
Props ==
  LET i == lastin'  o == Canon(i) IN
  /\ Assert(Behaved(cfg, i), <<"env", key, i>>)
  /\ Assert(WdCheck(cfg, st, i, o) = "none", <<"canonical output rejected", WdCheck(cfg, st, i, o), key, i>>)
  /\ Assert(Cardinality(WSel(cfg, i.adr)) <= 1, <<"AtMostOneSelected", key, i>>)
  /\ Assert(Cardinality({k \in 1..N : o.subs[k].cyc = 1}) <= 1, <<"AtMostOneCyc", key, i>>)
  /\ IF Export THEN PrintT(<<"EDGE", ToJson([key |-> key, s |-> st, i |-> i, t |-> st'])>>) ELSE TRUE
====
