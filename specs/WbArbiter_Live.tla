---- MODULE WbArbiter_Live ----
(* C09 as a liveness property over infinite request schedules.                              *)
(* Only the abstraction of the inputs that fairness depends on is kept in the state: who    *)
(* is requesting (cyc) and whether the owner holds its cycle (lock | stb).  `tick` toggles  *)
(* on every clock edge so that a clock edge is never a stuttering step.                     *)
EXTENDS WbArbiter, TLC
CONSTANTS N, HasLock
VARIABLES grant, req, hold, wait, tick
vars == <<grant, req, hold, wait, tick>>

Idx == 1..N
F == [err |-> 0, rty |-> 0, stall |-> 0, lock |-> HasLock, cti |-> 0, bte |-> 0]
cfg == [n |-> N, feat |-> F, intr |-> [k \in Idx |-> [feat |-> F, ratio |-> 1]]]
In(r, h) == [intr |-> [k \in Idx |-> [cyc |-> r[k], stb |-> h, lock |-> 0, we |-> 0, adr |-> 0,
                                      dat_w |-> <<0>>, sel |-> <<0>>, cti |-> 0, bte |-> 0]],
             tgt  |-> [ack |-> 0, err |-> 0, rty |-> 0, stall |-> 0, dat_r |-> <<0>>]]
in == In(req, hold)
IsBusy == Busy(cfg, [grant |-> grant], in)

Init == /\ grant = 1 /\ req \in [Idx -> {0, 1}] /\ hold \in {0, 1}
        /\ wait = [k \in Idx |-> 0] /\ tick = FALSE
Next == /\ tick' = ~tick
        /\ grant' = NextGrant(cfg, [grant |-> grant], in)
        /\ req' \in [Idx -> {0, 1}]
        /\ hold' \in {0, 1}
        \* wait[k]: grants handed to OTHER initiators since k started requesting continuously
        /\ wait' = [k \in Idx |->
                      IF req[k] = 0 \/ grant' = k \/ grant = k THEN 0
                      ELSE IF grant' # grant THEN wait[k] + 1 ELSE wait[k]]
Spec == Init /\ [][Next]_vars /\ WF_vars(Next)

\* "served after at most N-1 other grants"
BoundedWait == \A k \in Idx : wait[k] <= N - 1
\* no request pattern of the others can starve k, provided owners eventually release the bus
NoStarvation == \A k \in Idx : ([]<>(~IsBusy) /\ <>[](req[k] = 1)) => []<>(grant = k)
\* vacuity witnesses (must be violated)
\* (the tight bound is N-2: the grant that ends the wait is not an "other" grant)
TightWait   == \A k \in Idx : wait[k] <= N - 2
NobodyWaits == \A k \in Idx : wait[k] <= N - 3
====
