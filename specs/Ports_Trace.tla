---- MODULE Ports_Trace ----
EXTENDS Ports, TraceRunner
====
