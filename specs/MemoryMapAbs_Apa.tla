---- MODULE MemoryMapAbs_Apa ----
(* Apalache wrapper of MemoryMapAbs: the inductive invariant over UNBOUNDED integers (any Space,   *)
(* any addresses, cursor and sizes), for item sets of up to 6 elements (Gen).                       *)
(*   apalache-mc check --cinit=CInit --init=IndInit --inv=IndInv --next=ANext --length=1   (step)   *)
(*   apalache-mc check --cinit=CInit --init=AInit   --inv=IndInv --length=0               (base)   *)
EXTENDS Integers, Apalache
CONSTANT
  \* @type: Int;
  Space
VARIABLES
  \* @type: Set({start: Int, stop: Int});
  ritems,
  \* @type: Int;
  cur,
  \* @type: Bool;
  frz
INSTANCE MemoryMapAbs
CInit == Space \in Nat /\ Space >= 1
IndInv == NoOverlap /\ InSpace /\ CursorOK
IndInit == /\ ritems = Gen(6)
           /\ cur \in Int
           /\ frz \in BOOLEAN
           /\ IndInv
\* vacuity control: without the overlap guard the step must FAIL (run with --next=BrokenNext)
BrokenAdd(s, n) == /\ ~frz /\ n >= 1 /\ s >= 0 /\ s + n <= Space
                   /\ ritems' = ritems \cup {NewRange(s, n)} /\ cur' = s + n /\ UNCHANGED frz
BrokenNext == \E s \in 0..Space : \E n \in 1..Space : BrokenAdd(s, n)
====
