---- MODULE SocSys_MC ----
(* The composed system under EVERY behaviour of N protocol-abiding initiators, over a small         *)
(* geometry: 8 words of g = 2 one-bit lanes; SRAM at words 0-1; CSR window at words 2-3 holding a    *)
(* two-chunk register r1 (word 2), a one-chunk register r2 and an unassigned chunk (word 3); words   *)
(* 4-7 unassigned.  An initiator is idle, requests (holds one transfer until it is acknowledged, or  *)
(* gives up on it), or keeps CYC between transfers ("hold", with LOCK when the system has it).       *)
(* The system-level statements below are about what the INITIATORS see - they are not stated        *)
(* anywhere in the component specifications:                                                         *)
(*   OneAck           at most one initiator is acknowledged per cycle: the owner, while it requests  *)
(*   UnassignedSilent a transfer to an unassigned address is never acknowledged (C01's last clause)  *)
(*   SramCoherent     an acknowledged SRAM read returns what the acknowledged writes of ALL          *)
(*                    initiators left there (sequential consistency of the shared memory)            *)
(*   RegCoherent      an acknowledged full read of a register returns the last acknowledged full     *)
(*                    write to it, whoever made it (no tearing across initiators)                    *)
(*   Latency          SRAM transfers are acknowledged in the cycle after they reach the bus,         *)
(*                    CSR transfers g + 1 cycles after                                                *)
(*   Served (liveness) every transfer to an assigned address is eventually acknowledged, provided    *)
(*                    every owner eventually releases the bus (SF on going idle)      *)
EXTENDS SocSys, TLC
CONSTANTS NI, HasLock, Adrs, Dats, SelSet, WithRo
VARIABLES st, ini, ro, gm, gr, age, tick
vars == <<st, ini, ro, gm, gr, age, tick>>

W(a, b) == <<a, b>>
Dats1 == {W(1, 1)}
Dats2 == {W(1, 1), W(0, 1)}
Dats3 == {W(1, 1), W(0, 1), W(1, 0)}
cfg == [n |-> NI, lock |-> HasLock, g |-> 2, cdw |-> 1,
        sram |-> [start |-> 0, rows |-> 2, writable |-> 1, init |-> <<W(0, 0), W(1, 0)>>],
        csr  |-> [start |-> 2, caw |-> 2],
        regs |-> <<[start |-> 0, stop |-> 2, width |-> 2, r |-> 1, w |-> 1, kind |-> "rw", init |-> W(0, 1)],
                   [start |-> 2, stop |-> 3, width |-> 1, r |-> 1, w |-> 1,
                    kind |-> IF WithRo THEN "ro" ELSE "rw", init |-> <<0>>]>>]
Idx == 1..NI
Sels3 == {W(1, 1), W(1, 0), W(0, 1)}
Sels1 == {W(1, 1)}
Sels2 == {W(1, 1), W(0, 1)}
Sels == SelSet
NewReqs == [we : {0}, adr : Adrs, sel : Sels, dat : {W(0, 0)}] \cup [we : {1}, adr : Adrs, sel : Sels, dat : Dats]
IdleI == [ph |-> "idle", we |-> 0, adr |-> 0, sel |-> W(0, 0), dat |-> W(0, 0)]
ReqI(q) == [ph |-> "req", we |-> q.we, adr |-> q.adr, sel |-> q.sel, dat |-> q.dat]
HoldI == [IdleI EXCEPT !.ph = "hold"]

\* what an initiator drives, as a function of its state
Drive(s) == [cyc |-> IF s.ph = "idle" THEN 0 ELSE 1, stb |-> IF s.ph = "req" THEN 1 ELSE 0, we |-> s.we,
             lock |-> IF s.ph = "hold" THEN HasLock ELSE 0, adr |-> s.adr, sel |-> s.sel, dat_w |-> s.dat]
in == [intr |-> [k \in Idx |-> Drive(ini[k])], ro |-> <<W(0, 0), ro>>]
Ack(k) == SysIntr(cfg, st, in, k).ack
DatR(k) == SysIntr(cfg, st, in, k).dat_r

TieReqs == {ReqI([we |-> 0, adr |-> 0, sel |-> W(1, 1), dat |-> W(0, 0)]),
            ReqI([we |-> 1, adr |-> 2, sel |-> W(1, 1), dat |-> W(1, 1)])}
\* ---- the initiators' moves ---------------------------------------------------------------------------
Moves(k) ==
  LET s == ini[k] IN
  IF s.ph = "idle" THEN {IdleI} \cup {ReqI(q) : q \in NewReqs}
  ELSE IF s.ph = "hold" THEN {IdleI, HoldI} \cup {ReqI(q) : q \in NewReqs}
  ELSE IF Ack(k) = 1 THEN {IdleI, HoldI} \cup {ReqI(q) : q \in NewReqs}        \* spaced, held or back to back
  ELSE IF ~Mapped(cfg, s.adr) THEN {s, IdleI}                                    \* may give up
  ELSE {s}                                                                         \* holds the transfer
\* ghost: what the acknowledged writes left in the SRAM and in the registers (known = 0: not known)
WordAfter(old, q) == [b \in 1..2 |-> IF q.sel[b] = 1 THEN q.dat[b] ELSE old[b]]
RegChunks(k) == cfg.regs[k].start..(cfg.regs[k].stop - 1)
WordOf(c) == cfg.csr.start + (c \div 2)
Touches(q, k) == \E c \in RegChunks(k) : WordOf(c) = q.adr /\ q.sel[(c % 2) + 1] = 1
Covers(q, k) == \A c \in RegChunks(k) : WordOf(c) = q.adr /\ q.sel[(c % 2) + 1] = 1
Unk == [known |-> 0, v |-> <<>>]
Known(v) == [known |-> 1, v |-> v]
ValueFor(q, k) == [b \in 1..cfg.regs[k].width |-> q.dat[((cfg.regs[k].start + b - 1) % 2) + 1]]
Tick ==
  /\ tick' = ~tick
  /\ st' = SysStep(cfg, st, in)
  \* at most one initiator makes an arbitrary fresh choice per cycle; others starting in the very same cycle
  \* (an arbitration tie - the arbiter only looks at CYC) pick from the small set TieReqs
  /\ ini' \in {f \in [Idx -> UNION {Moves(k) : k \in Idx}] :
                 /\ \A k \in Idx : f[k] \in Moves(k)
                 /\ Cardinality({k \in Idx : f[k] # ini[k] /\ f[k].ph = "req" /\ f[k] \notin TieReqs}) <= 1}
  /\ ro' \in IF WithRo THEN {<<0>>, <<1>>} ELSE {<<0>>}
  /\ gm' = [a \in 0..1 |-> IF \E k \in Idx : Ack(k) = 1 /\ ini[k].we = 1 /\ ini[k].adr = a
                           THEN WordAfter(gm[a], ini[CHOOSE k \in Idx : Ack(k) = 1])
                           ELSE gm[a]]
  /\ gr' = [k \in 1..2 |->
              IF cfg.regs[k].kind # "rw" THEN Unk
              ELSE IF \E i \in Idx : Ack(i) = 1 /\ ini[i].we = 1 /\ Covers(ini[i], k)
                   THEN Known(ValueFor(ini[CHOOSE i \in Idx : Ack(i) = 1], k))
              ELSE IF \E i \in Idx : Ack(i) = 1 /\ ini[i].we = 1 /\ Touches(ini[i], k) THEN Unk
              ELSE gr[k]]
  \* cycles the current owner's transfer has been on the shared bus
  /\ age' = [k \in Idx |-> IF ini[k].ph = "req" /\ st.arb.grant = k /\ Ack(k) = 0 /\ ini'[k] = ini[k]
                           THEN Min2(age[k] + 1, cfg.g + 2) ELSE 0]      \* saturates (unassigned: never served)
Init == /\ st = SysInit(cfg) /\ ini = [k \in Idx |-> IdleI] /\ ro = <<0>>
        /\ gm = [a \in 0..1 |-> cfg.sram.init[a + 1]]
        /\ gr = [k \in 1..2 |-> IF cfg.regs[k].kind = "rw" THEN Known(cfg.regs[k].init) ELSE Unk]
        /\ age = [k \in Idx |-> 0] /\ tick = FALSE
Spec == Init /\ [][Tick]_vars
View == <<st, ini, ro, gm, gr, age>>

\* ---- what the initiators may rely on ------------------------------------------------------------------
Acked == {k \in Idx : Ack(k) = 1}
OneAck == /\ Cardinality(Acked) <= 1
          /\ \A k \in Acked : k = st.arb.grant /\ ini[k].ph = "req"
UnassignedSilent == \A k \in Acked : Mapped(cfg, ini[k].adr)
SramCoherent == \A k \in Acked : ini[k].we = 0 /\ InSram(cfg, ini[k].adr) => DatR(k) = gm[ini[k].adr]
RegCoherent == \A k \in Acked : \A r \in 1..2 :
                 ini[k].we = 0 /\ cfg.regs[r].kind = "rw" /\ Covers(ini[k], r) /\ gr[r].known = 1 =>
                   \A b \in 1..cfg.regs[r].width : DatR(k)[((cfg.regs[r].start + b - 1) % 2) + 1] = gr[r].v[b]
\* an unassigned CSR chunk reads as zero
HoleReadsZero == \A k \in Acked : ini[k].we = 0 /\ ini[k].adr = 3 /\ ini[k].sel[2] = 1 => DatR(k)[2] = 0
Latency == \A k \in Idx : /\ (k \in Acked /\ InSram(cfg, ini[k].adr) => age[k] = 1)
                          /\ (k \in Acked /\ InCsr(cfg, ini[k].adr) => age[k] = cfg.g + 1)
                          /\ age[k] <= cfg.g + 1 \/ ~Mapped(cfg, ini[k].adr)
\* liveness: nobody sits on the bus for ever
\* (the arbiter never pre-empts an owner that keeps CYC up - back-to-back transfers included - so, as C09
\* says, service is only promised if every owner eventually RELEASES the bus: strong fairness on going idle,
\* which is possible whenever a transfer ends, in hold, and for a transfer to an unassigned address)
Fair == /\ WF_vars(Tick)
        /\ \A k \in Idx : SF_vars(Tick /\ ini[k].ph # "idle" /\ ini'[k].ph = "idle")
LiveSpec == Spec /\ Fair
WeakSpec == Spec /\ WF_vars(Tick)          \* without the release assumption Served must FAIL
Served == \A k \in Idx : (ini[k].ph = "req" /\ Mapped(cfg, ini[k].adr)) ~> (Ack(k) = 1)
\* vacuity witnesses (each must be refuted)
NeverTwoWaiting == ~(\E a, b \in Idx : a # b /\ ini[a].ph = "req" /\ ini[b].ph = "req")
NeverRegKnownRead == ~(\E k \in Acked : ini[k].we = 0 /\ Covers(ini[k], 1) /\ gr[1].known = 1 /\ gr[1].v # cfg.regs[1].init)
NeverSramForeignRead == ~(\E k \in Acked : ini[k].we = 0 /\ InSram(cfg, ini[k].adr) /\ gm[ini[k].adr] # cfg.sram.init[ini[k].adr + 1])
====
