---- MODULE EventMon_MC ----
(* Leg A for C13 (hardware half): every event-map size up to MaxN, every trigger-mode        *)
(* assignment, every reachable (pending, prev) state, every input/enable/clear vector.       *)
EXTENDS EventMon, TLC, Json
CONSTANTS MaxN, Export
VARIABLES key, st, lastin
Modes == {"level", "rise", "fall"}
Keys == UNION {[n : {n}, modes : [1..n -> Modes]] : n \in 0..MaxN}
cfg == key
N == key.n
Inputs == [i : BitVecs(N), enable : BitVecs(N), clear : BitVecs(N)]
Init == /\ key \in Keys /\ st = EvInit(cfg) /\ lastin = <<>>
        /\ IF Export THEN PrintT(<<"CFG", ToJson([key |-> key, cfg |-> cfg, s0 |-> st])>>) ELSE TRUE
Next == \E i \in Inputs : st' = EvStep(cfg, st, i) /\ lastin' = i /\ UNCHANGED key
Spec == Init /\ [][Next]_<<key, st, lastin>>
View == <<key, st>>

Props ==
  LET i == lastin'  o == EvOut(cfg, st, i) IN
  /\ \A k \in 1..N :
       /\ Assert(o.trg[k] = 1 => st'.pending[k] = 1, <<"NoEventLost", key, st, i>>)
       /\ Assert(st.pending[k] = 1 /\ i.clear[k] = 0 => st'.pending[k] = 1, <<"StickyUntilCleared", key, st, i>>)
       /\ Assert(o.trg[k] = 0 /\ i.clear[k] = 1 => st'.pending[k] = 0, <<"ClearClears", key, st, i>>)
       /\ Assert(o.trg[k] = 0 /\ st.pending[k] = 0 => st'.pending[k] = 0, <<"NotSpontaneous", key, st, i>>)
       \* trigger follows the mode; edge modes compare with the previous cycle's input
       /\ Assert(key.modes[k] = "level" => o.trg[k] = i.i[k], <<"level", key>>)
  /\ Assert((o.src_i = 1) <=> (\E k \in 1..N : i.enable[k] = 1 /\ st.pending[k] = 1), <<"LineIsEnabledAndPending", key>>)
  /\ IF Export THEN PrintT(<<"EDGE", ToJson([key |-> key, s |-> st, i |-> i, t |-> st'])>>) ELSE TRUE
\* edge modes compare with the previous cycle's input (initially low): two-step property
EdgeRule == [][\A k \in 1..N : key.modes[k] # "level" /\ lastin # <<>> =>
                 LET was == lastin.i[k]  now == lastin'.i[k]  t == EvOut(cfg, st, lastin').trg[k] IN
                 IF key.modes[k] = "rise" THEN t = Bit(was = 0 /\ now = 1)
                 ELSE t = Bit(was = 1 /\ now = 0)]_<<key, st, lastin>>
FirstCycle == [][\A k \in 1..N : key.modes[k] # "level" /\ lastin = <<>> =>
                 LET now == lastin'.i[k]  t == EvOut(cfg, st, lastin').trg[k] IN
                 IF key.modes[k] = "rise" THEN t = now ELSE t = 0]_<<key, st, lastin>>
\* vacuity witness (must be refuted): a trigger coinciding with a clear really occurs
NoTieEver == [][~\E k \in 1..N : EvOut(cfg, st, lastin').trg[k] = 1 /\ lastin'.clear[k] = 1]_<<key, st, lastin>>
====
