---- MODULE CsrReg_MC ----
(* Leg A for C11: a family of nested field collections (single field, dicts, lists, list of      *)
(* dicts inside a dict, zero-width fields), every assignment of access modes to the leaves,       *)
(* every register access mode, every element/field value: the packing statement of C11.           *)
EXTENDS CsrReg, TLC, Json
CONSTANTS Export
VARIABLES key, st, lastin
Lf(w) == [k |-> "leaf", w |-> w, acc |-> "rw"]
Shapes == { Lf(2),
            [k |-> "dict", keys |-> <<"a", "b">>, kids |-> <<Lf(1), Lf(2)>>],
            [k |-> "list", kids |-> <<Lf(2), Lf(0), Lf(1)>>],
            [k |-> "dict", keys |-> <<"x", "y">>,
               kids |-> <<[k |-> "list", kids |-> <<[k |-> "dict", keys |-> <<"p", "q">>, kids |-> <<Lf(1), Lf(1)>>], Lf(1)>>], Lf(1)>>],
            [k |-> "list", kids |-> <<[k |-> "list", kids |-> <<Lf(1), Lf(1)>>], [k |-> "dict", keys |-> <<"z">>, kids |-> <<Lf(2)>>]>>] }
NLeaves(t) == Len(Flatten(t, <<>>))
\* re-label the leaves of a tree with access modes, in declaration order
RECURSIVE Relabel(_, _, _)
Relabel(t, accs, from) ==    \* -> tree with leaves from+1.. relabelled
  IF t.k = "leaf" THEN [t EXCEPT !.acc = accs[from + 1]]
  ELSE [t EXCEPT !.kids = [j \in 1..Len(t.kids) |->
          Relabel(t.kids[j], accs, from + SumW([i \in 1..(j - 1) |-> [w |-> NLeaves(t.kids[i])]], j - 1))]]
Keys == UNION {{[access |-> a, tree |-> Relabel(t, accs, 0)] : a \in {"r", "w", "rw"},
                 accs \in [1..NLeaves(t) -> {"r", "w", "rw", "nc"}]} : t \in Shapes}
cfg == key
ls == st.ls
Vec(n, p) == [b \in 1..n |-> (b + p) % 2]
\* field values: two complementary patterns per field; element write data: every value
Inputs == IF Refused(cfg) THEN {}
          ELSE {[kind |-> "cycle", r_stb |-> rs, w_stb |-> ws, w_data |-> wd, f_r_data |-> [j \in 1..Len(ls) |-> Vec(ls[j].w, ps[j])]] :
                  rs \in {0, 1}, ws \in {0, 1},
                  wd \in IF Export THEN {Vec(st.w, 0), Vec(st.w, 1), Ones(st.w)} ELSE BitVecs(st.w),
                  ps \in IF Export THEN {[j \in 1..Len(ls) |-> p] : p \in {0, 1}} ELSE [1..Len(ls) -> {0, 1}]}
\* canonical observation, computed field by field (an independent formulation: per-field slices)
Canon(i) ==
  [r_data |-> [b \in 1..st.w |->
                 IF \E j \in 1..Len(ls) : Readable(ls[j].acc) /\ st.off[j] < b /\ b <= st.off[j] + ls[j].w
                                          /\ i.f_r_data[j][b - st.off[j]] = 1 THEN 1 ELSE 0],
   fields |-> [j \in 1..Len(ls) |->
                 [r_stb |-> IF Readable(ls[j].acc) THEN i.r_stb ELSE 0,
                  w_stb |-> IF Writable(ls[j].acc) THEN i.w_stb ELSE 0,
                  w_data |-> [b \in 1..ls[j].w |-> i.w_data[st.off[j] + b]]]]]
Init == /\ key \in Keys /\ st = RgInit(cfg) /\ lastin = <<>>
        /\ IF Export THEN PrintT(<<"CFG", ToJson([key |-> key, cfg |-> cfg, s0 |-> st, refused |-> Refused(cfg)])>>) ELSE TRUE
Next == \E i \in Inputs : st' = st /\ lastin' = i /\ UNCHANGED key
Spec == Init /\ [][Next]_<<key, st, lastin>>
View == <<key, st>>
\* width is the sum; fields occupy consecutive ranges, least significant first, in declaration order
PackingOK == /\ st.w = SumW(ls, Len(ls))
             /\ \A j \in 1..Len(ls) : st.off[j] + ls[j].w = (IF j = Len(ls) THEN st.w ELSE st.off[j + 1])
             /\ (Len(ls) > 0 => st.off[1] = 0)
Props ==
  LET i == lastin' IN
  /\ Assert(RgCheck(cfg, st, i, Canon(i)) = "none", <<"canonical observation rejected", RgCheck(cfg, st, i, Canon(i)), key, i>>)
  /\ IF Export THEN PrintT(<<"EDGE", ToJson([key |-> key, s |-> st, i |-> i, t |-> st'])>>) ELSE TRUE
====
