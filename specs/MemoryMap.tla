---- MODULE MemoryMap ----
(* amaranth_soc.memory.MemoryMap as a sequential object (properties C02, C03, C18; reused by     *)
(* C01, C06, C17).  One action per public call; the linearization point is the return (or raise). *)
(*                                                                                                *)
(* st = [maps |-> << map >>]   map ids are positions in this sequence (creation order)             *)
(*   map  = [aw, dw, al, frozen (0/1), cursor, items (a SET of item records)]                     *)
(*   item = [kind |-> "res" | "win", id |-> resource id | map id, name |-> << tagged parts >>       *)
(*           (<<>> = anonymous window), start, stop, ratio]                                        *)
(* A call record `c` (the trace's input) carries the arguments AND the logged outcome:             *)
(*   c.ok = 1 if the call returned, 0 if it raised; c.start / c.stop = the returned range.         *)
(* MmStep follows the logged outcome; MmCheck decides whether that outcome was allowed and whether  *)
(* everything observable afterwards is what the specification says.  Where the property leaves a   *)
(* choice (an explicit address that is a multiple of the map alignment but not of the effective    *)
(* alignment; the placement of dense windows of ratio > 1) both outcomes are allowed and the       *)
(* specification continues from the one the code took.                                             *)
(* Integer arguments use -1 for "not given"; name parts are tagged ("s:ctrl", "i:0") so that the   *)
(* string "0" and the integer 0 stay distinct.                                                     *)
EXTENDS Util, Integers, SequencesExt, MemoryMapAbsOps, NamesAbsOps

MmInit(cfg) == [maps |-> <<>>]

IsPow2(n) == \E k \in 0..6 : n = Pow2(k)
\* two names conflict iff one is a prefix of the other (or they are equal)
Conflict(a, b) == \A k \in 1..Min2(Len(a), Len(b)) : a[k] = b[k]
RECURSIVE Visible(_, _)
Visible(maps, m) ==
  UNION {IF it.kind = "win" /\ it.name = <<>> THEN Visible(maps, it.id) ELSE {it.name} : it \in maps[m].items}
Free(maps, m, names) == \A n \in names : \A v \in Visible(maps, m) : ~Conflict(n, v)
Overlaps(map, a, b) == \E it \in map.items : a < it.stop /\ it.start < b
Sorted(map) == SetToSortSeq(map.items, LAMBDA x, y : x.start < y.start)

\* ---- add_resource -----------------------------------------------------------------------------
ResEff(map, c) == IF c.alignment < 0 THEN map.al ELSE Max2(c.alignment, map.al)
ResStart(map, c) == IF c.addr >= 0 THEN c.addr ELSE AlignUp(map.cursor, ResEff(map, c))
ResStop(map, c) == ResStart(map, c) + AlignUp(Max2(c.size, 1), ResEff(map, c))
ResMustReject(maps, c) ==
  LET map == maps[c.m] IN
  \/ c.bad # "none"
  \/ map.frozen = 1
  \/ \E it \in map.items : it.kind = "res" /\ it.id = c.res
  \/ ~Free(maps, c.m, {c.name})
  \/ (c.addr >= 0 /\ c.addr % Pow2(map.al) # 0)
  \/ ResStop(map, c) > Pow2(map.aw)
  \/ Overlaps(map, ResStart(map, c), ResStop(map, c))
ResMayReject(maps, c) ==      \* documented as required, not enforced today: either is acceptable
  c.addr >= 0 /\ c.addr % Pow2(ResEff(maps[c.m], c)) # 0

\* ---- add_window ---------------------------------------------------------------------------------
WinRatio(map, w, c) == IF c.sparse = "true" THEN 1 ELSE map.dw \div w.dw
WinBasicReject(maps, c) ==
  LET map == maps[c.m] IN
  \/ c.bad # "none"
  \/ map.frozen = 1
  \/ \E it \in map.items : it.kind = "win" /\ it.id = c.w
  \/ LET w == maps[c.w] IN
     \/ w.dw > map.dw
     \/ (w.dw # map.dw /\ c.sparse = "none")
     \/ (w.dw # map.dw /\ c.sparse = "false" /\ map.dw % w.dw # 0)
     \/ ~Free(maps, c.m, IF c.name = <<>> THEN Visible(maps, c.w) ELSE {c.name})
     \/ ~IsPow2(WinRatio(map, w, c))
     \/ WinRatio(map, w, c) > Pow2(w.al)
     \/ (c.addr >= 0 /\ c.addr % Pow2(map.al) # 0)
\* ratio-1 windows follow the same numeric rule as resources, with alignment max(map, window size)
Win1Eff(map, w) == Max2(map.al, w.aw)
Win1Start(map, w, c) == IF c.addr >= 0 THEN c.addr ELSE AlignUp(map.cursor, Win1Eff(map, w))
Win1Stop(map, w, c) == Win1Start(map, w, c) + AlignUp(Pow2(w.aw), Win1Eff(map, w))
WinMustReject(maps, c) ==
  \/ WinBasicReject(maps, c)
  \/ LET map == maps[c.m]  w == maps[c.w] IN
     IF WinRatio(map, w, c) = 1
     THEN \/ Win1Stop(map, w, c) > Pow2(map.aw)
          \/ Overlaps(map, Win1Start(map, w, c), Win1Stop(map, w, c))
     ELSE \* dense, ratio > 1: an explicit address at least needs room for span / ratio
          c.addr >= 0 /\ (\/ c.addr + Pow2(w.aw) \div WinRatio(map, w, c) > Pow2(map.aw)
                          \/ Overlaps(map, c.addr, c.addr + Pow2(w.aw) \div WinRatio(map, w, c)))
WinMayReject(maps, c) ==
  LET map == maps[c.m]  w == maps[c.w] IN
  \/ WinRatio(map, w, c) > 1                                  \* numeric alignment rule not claimed
  \/ (c.addr >= 0 /\ c.addr % Pow2(Win1Eff(map, w)) # 0)
\* an accepted dense window of ratio > 1: what is claimed about the returned range
DenseOk(maps, c) ==
  LET map == maps[c.m]  w == maps[c.w]  r == WinRatio(map, w, c) IN
  /\ (c.addr >= 0 => c.start = c.addr)
  /\ (c.addr < 0 => c.start >= map.cursor)
  /\ c.start % Pow2(map.al) = 0
  /\ c.stop - c.start >= Pow2(w.aw) \div r
  /\ c.stop <= Pow2(map.aw)
  /\ ~Overlaps(map, c.start, c.stop)

MustReject(maps, c) ==
  CASE c.call = "add_resource" -> ResMustReject(maps, c)
    [] c.call = "add_window"   -> WinMustReject(maps, c)
    [] c.call = "align_to"     -> c.al < 0
    [] c.call = "bridge"       -> \E it \in maps[c.m].items : it.kind = "win"
    [] OTHER                   -> FALSE
MayReject(maps, c) ==
  CASE c.call = "add_resource" -> ResMayReject(maps, c)
    [] c.call = "add_window"   -> WinMayReject(maps, c)
    [] OTHER                   -> FALSE

\* ---- next state, following the logged outcome ---------------------------------------------------
NewMap(c) == [aw |-> c.aw, dw |-> c.dw, al |-> c.al, frozen |-> 0, cursor |-> 0, items |-> {}]
MmStep(cfg, st, c) ==
  LET maps == st.maps IN
  IF c.call = "new" THEN [maps |-> Append(maps, NewMap(c))]
  ELSE IF c.call = "lookup" THEN st
  ELSE IF c.ok = 0 THEN st
  ELSE CASE c.call = "add_resource" ->
              [maps |-> [maps EXCEPT ![c.m].items = @ \cup {[kind |-> "res", id |-> c.res, name |-> c.name,
                                                              start |-> c.start, stop |-> c.stop, ratio |-> 1]},
                                     ![c.m].cursor = c.stop]]
         [] c.call = "add_window" ->
              [maps |-> [maps EXCEPT ![c.m].items = @ \cup {[kind |-> "win", id |-> c.w, name |-> c.name,
                                                              start |-> c.start, stop |-> c.stop,
                                                              ratio |-> WinRatio(maps[c.m], maps[c.w], c)]},
                                     ![c.m].cursor = c.stop,
                                     ![c.w].frozen = 1]]
         [] c.call = "align_to" ->
              [maps |-> [maps EXCEPT ![c.m].cursor = AlignUp(@, Max2(c.al, maps[c.m].al))]]
         [] c.call \in {"freeze", "bridge", "periph"} -> [maps |-> [maps EXCEPT ![c.m].frozen = 1]]
         [] OTHER -> st

\* ---- queries (C03): the statement's arithmetic, independent of the code's traversal -------------
RECURSIVE AllRes(_, _)
AllRes(maps, m) ==
  LET srt == Sorted(maps[m])
      one(it) == IF it.kind = "res"
                 THEN <<[id |-> it.id, path |-> <<it.name>>, start |-> it.start, stop |-> it.stop,
                         width |-> maps[m].dw]>>
                 ELSE LET sub == AllRes(maps, it.id) IN
                      [k \in 1..Len(sub) |->
                         [id |-> sub[k].id,
                          path |-> IF it.name = <<>> THEN sub[k].path ELSE <<it.name>> \o sub[k].path,
                          start |-> it.start + sub[k].start \div it.ratio,
                          stop |-> it.start + sub[k].start \div it.ratio + (sub[k].stop - sub[k].start) \div it.ratio,
                          width |-> sub[k].width * it.ratio]]
  IN FlattenSeq([k \in 1..Len(srt) |-> one(srt[k])])
\* top-down decoding, written independently of AllRes
RECURSIVE Decode(_, _, _)
Decode(maps, m, a) ==
  LET hit == {it \in maps[m].items : it.start <= a /\ a < it.stop} IN
  IF hit = {} THEN 0
  ELSE LET it == CHOOSE x \in hit : TRUE IN
       IF it.kind = "res" THEN it.id
       ELSE IF (a - it.start) * it.ratio >= Pow2(maps[it.id].aw) THEN 0
       ELSE Decode(maps, it.id, (a - it.start) * it.ratio)

\* ---- what is observable after a call -------------------------------------------------------------
ViewRes(map) == LET s == SelectSeq(Sorted(map), LAMBDA it : it.kind = "res") IN
                [k \in 1..Len(s) |-> <<s[k].id, s[k].name, s[k].start, s[k].stop>>]
ViewWin(map) == LET s == SelectSeq(Sorted(map), LAMBDA it : it.kind = "win") IN
                [k \in 1..Len(s) |-> <<s[k].id, s[k].name, s[k].start, s[k].stop, s[k].ratio>>]

CheckViews(st2, o) ==
  IF Len(o.views) # Len(st2.maps) THEN "number of maps"
  ELSE IF \E m \in 1..Len(st2.maps) : o.views[m].resources # ViewRes(st2.maps[m]) THEN "resources()"
  ELSE IF \E m \in 1..Len(st2.maps) : o.views[m].windows # ViewWin(st2.maps[m]) THEN "windows()"
  \* align_to(0) is a behaviourally neutral probe of the placement cursor
  ELSE IF \E m \in 1..Len(st2.maps) : o.views[m].cursor # AlignUp(st2.maps[m].cursor, st2.maps[m].al)
       THEN "placement cursor"
  ELSE "none"

CheckLookup(st, c, o) ==
  LET maps == st.maps IN
  IF \E m \in 1..Len(maps) : o.all[m] # [k \in 1..Len(AllRes(maps, m)) |->
        LET r == AllRes(maps, m)[k] IN <<r.id, r.path, r.start, r.stop, r.width>>] THEN "all_resources()"
  ELSE IF \E m \in 1..Len(maps) : \E a \in 0..(Pow2(maps[m].aw) - 1) : o.decode[m][a + 1] # Decode(maps, m, a)
       THEN "decode_address()"
  \* every address inside a reported range decodes to that resource, every other address to nothing
  ELSE IF \E m \in 1..Len(maps) : \E a \in 0..(Pow2(maps[m].aw) - 1) :
            LET rs == AllRes(maps, m)
                own == {k \in 1..Len(rs) : rs[k].start <= a /\ a < rs[k].stop} IN
            \/ Cardinality(own) > 1
            \/ (own = {} /\ o.decode[m][a + 1] # 0)
            \/ (own # {} /\ o.decode[m][a + 1] # rs[CHOOSE k \in own : TRUE].id) THEN "decode vs all_resources"
  \* find_resource agrees with all_resources; KeyError (0) for objects never added
  ELSE IF \E m \in 1..Len(maps) : \E q \in 1..Len(o.find[m]) :
            LET f == o.find[m][q]
                rs == AllRes(maps, m)
                own == {k \in 1..Len(rs) : rs[k].id = f.id} IN
            IF own = {} THEN f.found # 0
            ELSE LET r == rs[CHOOSE k \in own : TRUE] IN
                 f.found # 1 \/ f.info # <<r.id, r.path, r.start, r.stop, r.width>> THEN "find_resource()"
  ELSE "none"

\* ---- refinement of the abstract allocator (MemoryMapAbs.tla; proved safe for every size by TLAPS) ----
AbsProj(map) == {[start |-> it.start, stop |-> it.stop] : it \in map.items}
AbsStepOK(st, st2) ==
  \A m \in 1..Len(st2.maps) :
    IF m > Len(st.maps) THEN InitRel(AbsProj(st2.maps[m]), st2.maps[m].cursor, st2.maps[m].frozen = 1)
    ELSE StepRel(Pow2(st.maps[m].aw), AbsProj(st.maps[m]), st.maps[m].cursor, st.maps[m].frozen = 1,
                 AbsProj(st2.maps[m]), st2.maps[m].cursor, st2.maps[m].frozen = 1)

\* ---- refinement of the abstract name space (NamesAbs.tla; proved prefix-free for every forest by TLAPS) ----
NamesOf(maps) == [m \in 1..Len(maps) |-> Visible(maps, m)]
FrzOf(maps) == [m \in 1..Len(maps) |-> maps[m].frozen = 1]
AnonOf(maps) == [m \in 1..Len(maps) |-> {it.id : it \in {x \in maps[m].items : x.kind = "win" /\ x.name = <<>>}}]
AbsNamesOK(st, st2) ==
  IF Len(st2.maps) # Len(st.maps)
  THEN \* a new map: empty name space, everything else untouched
       /\ Len(st2.maps) = Len(st.maps) + 1
       /\ \A m \in 1..Len(st.maps) : st2.maps[m] = st.maps[m]
       /\ Visible(st2.maps, Len(st2.maps)) = {} /\ st2.maps[Len(st2.maps)].frozen = 0
  ELSE NamesRel(1..Len(st.maps), Conflict, NamesOf(st.maps), FrzOf(st.maps), AnonOf(st.maps),
                NamesOf(st2.maps), FrzOf(st2.maps), AnonOf(st2.maps))

MmCheck(cfg, st, c, o) ==
  LET maps == st.maps IN
  IF c.call = "lookup" THEN CheckLookup(st, c, o)
  ELSE IF c.call = "new" THEN CheckViews(MmStep(cfg, st, c), o)
  ELSE IF c.ok = 1 /\ MustReject(maps, c) THEN "accepted a call that must be refused"
  ELSE IF c.ok = 0 /\ ~MustReject(maps, c) /\ ~MayReject(maps, c) THEN "refused a legal call"
  ELSE IF c.ok = 1 /\ c.call = "add_resource"
          /\ (c.start # ResStart(maps[c.m], c) \/ c.stop # ResStop(maps[c.m], c)) THEN "add_resource range"
  ELSE IF c.ok = 1 /\ c.call = "add_window" /\ WinRatio(maps[c.m], maps[c.w], c) = 1
          /\ (c.start # Win1Start(maps[c.m], maps[c.w], c) \/ c.stop # Win1Stop(maps[c.m], maps[c.w], c)
              \/ c.ratio # 1) THEN "add_window range"
  ELSE IF c.ok = 1 /\ c.call = "add_window" /\ WinRatio(maps[c.m], maps[c.w], c) > 1
          /\ (~DenseOk(maps, c) \/ c.ratio # WinRatio(maps[c.m], maps[c.w], c)) THEN "dense add_window range"
  ELSE IF c.ok = 1 /\ c.call = "align_to"
          /\ c.ret # AlignUp(maps[c.m].cursor, Max2(c.al, maps[c.m].al)) THEN "align_to result"
  ELSE IF ~AbsStepOK(st, MmStep(cfg, st, c)) THEN "abstract allocator step (MemoryMapAbs)"
  ELSE IF ~AbsNamesOK(st, MmStep(cfg, st, c)) THEN "abstract name-space step (NamesAbs)"
  ELSE CheckViews(MmStep(cfg, st, c), o)
====
