---- MODULE WbArbiterAbsOps ----
(* Constant-level operators of the abstract round-robin arbiter (WbArbiterAbs.tla), written with    *)
(* conditional linear arithmetic instead of modulo so that the TLAPS proof goes through for an      *)
(* ARBITRARY number of initiators.  Initiators are numbered 0..n-1 here.                            *)
EXTENDS Integers
\* the initiator k places after g in cyclic order (k in 0..n-1)
RAhead(n, g, k) == IF g + k < n THEN g + k ELSE g + k - n
\* how far w is after g in cyclic order (0 for w = g)
RDist(n, g, w) == IF w >= g THEN w - g ELSE w - g + n
\* k is the distance of the requester closest after g
RClosest(n, g, R, k) == /\ k \in 1..(n - 1)
                       /\ RAhead(n, g, k) \in R
                       /\ \A j \in 1..(k - 1) : RAhead(n, g, j) \notin R
\* the ownership step: R = who requests (cyc) in this cycle, busy = the owner's cycle is in progress
GrantRel(n, g, R, busy, g2) ==
  \/ /\ busy \/ \A k \in 1..(n - 1) : RAhead(n, g, k) \notin R
     /\ g2 = g
  \/ /\ ~busy
     /\ \E k \in 1..(n - 1) : RClosest(n, g, R, k) /\ g2 = RAhead(n, g, k)
====
