---- MODULE CsrDecoder_Trace ----
EXTENDS CsrDecoder, TraceRunner
====
