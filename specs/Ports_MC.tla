---- MODULE Ports_MC ----
(* Enumerates the parameter tuples of every signature class (bounded widths, all feature subsets, *)
(* all access and trigger modes), checks the role rule on the tables themselves (an initiator     *)
(* and a target port of the same parameters are always connectable, flipping twice is the         *)
(* identity, tables of different parameters differ) and prints each tuple for the harness.        *)
EXTENDS Ports, TLC, Json
VARIABLES t
Feats == [err : {0, 1}, rty : {0, 1}, stall : {0, 1}, lock : {0, 1}, cti : {0, 1}, bte : {0, 1}]
Tuples ==
  {[cls |-> "csr.Signature", p |-> [aw |-> a, dw |-> d]] : a \in {1, 2, 7, 16}, d \in {1, 3, 8, 32}} \cup
  {[cls |-> "csr.Element.Signature", p |-> [w |-> w, access |-> a]] : w \in {0, 1, 8, 37}, a \in {"r", "w", "rw"}} \cup
  {[cls |-> "csr.FieldPort.Signature", p |-> [w |-> w, signed |-> s, access |-> a]] :
       w \in {0, 1, 8}, s \in {0, 1}, a \in {"r", "w", "rw", "nc"}} \cup
  {[cls |-> "wishbone.Signature", p |-> [aw |-> a, dw |-> d, gran |-> g, feat |-> f]] :
       a \in {0, 4, 5, 6}, d \in {8, 16, 32, 64}, g \in {8, 16, 32, 64}, f \in Feats} \cup
  {[cls |-> "event.Source.Signature", p |-> [trigger |-> tr]] : tr \in {"level", "rise", "fall"}} \cup
  {[cls |-> "gpio.PinSignature", p |-> [none |-> 0]]}
Valid(x) == /\ (x.cls = "wishbone.Signature" => x.p.gran <= x.p.dw)
            /\ (x.cls = "csr.FieldPort.Signature" => (x.p.signed = 1 => x.p.w >= 1))
Init == t \in {x \in Tuples : Valid(x)}
Next == UNCHANGED t
Spec == Init /\ [][Next]_t
RolesComplementary ==
  /\ Connectable(PortMembers(t.cls, t.p, "target"), PortMembers(t.cls, t.p, "initiator"))
  /\ Flip(Flip(Members(t.cls, t.p))) = Members(t.cls, t.p)
  /\ PrintT(<<"TUPLE", ToJson(t)>>)
====
