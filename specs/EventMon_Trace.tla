---- MODULE EventMon_Trace ----
EXTENDS EventMon, TraceRunner
====
