---- MODULE FieldAction_MC ----
(* Leg A for C12: every kind, width 1..MaxW, every initial value, every reachable storage    *)
(* state and EVERY combination of strobes, data and hardware set/clear inputs each cycle.    *)
EXTENDS FieldAction, TLC, Json
CONSTANTS MaxW, Export
VARIABLES key, st, lastw, lastin

Kinds == {"R", "W", "RW", "RW1C", "RW1S", "Res"}
Keys == UNION {[kind : Kinds, w : {w}, init : BitVecs(w)] : w \in 1..MaxW}
cfg == key
W == key.w
Z == Zeros(W)
\* only the inputs a kind has are varied
Inputs == {[r_stb |-> rs, w_stb |-> ws, w_data |-> wd, r_data |-> rd, set |-> s, clear |-> c] :
             rs \in IF key.kind = "R" THEN {0, 1} ELSE {0},
             ws \in IF key.kind \in {"R"} THEN {0} ELSE {0, 1},
             wd \in IF key.kind \in {"R"} THEN {Z} ELSE BitVecs(W),
             rd \in IF key.kind = "R" THEN BitVecs(W) ELSE {Z},
             s  \in IF key.kind = "RW1C" THEN BitVecs(W) ELSE {Z},
             c  \in IF key.kind = "RW1S" THEN BitVecs(W) ELSE {Z}}

Init == /\ key \in Keys /\ st = FaInit(cfg) /\ lastw = key.init /\ lastin = <<>>
        /\ IF Export THEN PrintT(<<"CFG", ToJson([key |-> key, cfg |-> cfg, s0 |-> st])>>) ELSE TRUE
Next == \E i \in Inputs :
          /\ st' = FaStep(cfg, st, i)
          /\ lastw' = IF i.w_stb = 1 THEN i.w_data ELSE lastw
          /\ lastin' = i
          /\ UNCHANGED key
Spec == Init /\ [][Next]_<<key, st, lastw, lastin>>
View == <<key, st, lastw>>

\* ---- the statement of C12, bit by bit ----
HoldsLastWritten == key.kind = "RW" => st.storage = lastw
TypeOK == Len(st.storage) = W /\ \A b \in 1..W : st.storage[b] \in {0, 1}
Rw1cBit(i, old, new, b) ==
  IF i.set[b] = 1 THEN new[b] = 1                               \* setting wins a tie
  ELSE IF i.w_stb = 1 /\ i.w_data[b] = 1 THEN new[b] = 0        \* writing a one clears
  ELSE new[b] = old[b]                                          \* untouched bits keep
Rw1sBit(i, old, new, b) ==
  IF i.w_stb = 1 /\ i.w_data[b] = 1 THEN new[b] = 1
  ELSE IF i.clear[b] = 1 THEN new[b] = 0
  ELSE new[b] = old[b]
Props ==
  LET i == lastin'  old == st.storage  new == st'.storage  o == FaOut(cfg, st, i) IN
  /\ Assert(key.kind = "RW1C" => \A b \in 1..W : Rw1cBit(i, old, new, b), <<"RW1C", key, old, i, new>>)
  /\ Assert(key.kind = "RW1S" => \A b \in 1..W : Rw1sBit(i, old, new, b), <<"RW1S", key, old, i, new>>)
  /\ Assert(key.kind = "RW" => new = (IF i.w_stb = 1 THEN i.w_data ELSE old), <<"RW", key, old, i, new>>)
  /\ Assert(~Stored(cfg) => new = old, <<"stateless", key>>)
  \* a field's data output always equals what a bus read of it returns
  /\ Assert(Stored(cfg) => o.data = o.port_r_data /\ o.data = old, <<"DataOutEqualsBusRead", key>>)
  \* R and W pass data and strobes through in the same cycle
  /\ Assert(key.kind = "R" => o.port_r_data = i.r_data /\ o.r_stb = i.r_stb, <<"R passthrough", key>>)
  /\ Assert(key.kind = "W" => o.w_data = i.w_data /\ o.w_stb = i.w_stb, <<"W passthrough", key>>)
  /\ IF Export THEN PrintT(<<"EDGE", ToJson([key |-> key, s |-> st, i |-> i, t |-> st'])>>) ELSE TRUE

\* vacuity witness: must be refuted (storage does change)
StorageNeverChanges == [][st' = st]_<<key, st, lastw, lastin>>
====
