---- MODULE CsrDecoder ----
(* csr.Decoder (property C06): purely combinational routing.                                  *)
(* cfg = [aw, dw, subs |-> << [aw |-> subordinate address width, start |-> window start] >>]   *)
(*       (start as reported by the memory map / returned by Decoder.add)                       *)
(* in  = [addr, r_stb, w_stb, w_data |-> bits, sub_r_data |-> << bits >>]                      *)
(* obs = [r_data |-> bits, subs |-> << [addr, r_stb, w_stb, w_data |-> bits] >>]               *)
EXTENDS Util

DecInit(cfg) == [x |-> 0]                 \* no state
DecStep(cfg, st, in) == st

\* the window of subordinate k contains address a
Owns(cfg, k, a) == cfg.subs[k].start <= a /\ a < cfg.subs[k].start + Pow2(cfg.subs[k].aw)
Selected(cfg, a) == {k \in 1..Len(cfg.subs) : Owns(cfg, k, a)}

NonZero(v) == \E b \in 1..Len(v) : v[b] = 1
\* upstream read data: that of the subordinate answering, idle subordinates contributing zero.
\* (If two subordinates drive non-zero data at once they break the CSR rule "zero when idle";
\*  the property then says nothing.)
ExpRData(cfg, in) ==
  LET busy == {k \in 1..Len(cfg.subs) : NonZero(in.sub_r_data[k])} IN
  IF busy = {} THEN Zeros(cfg.dw)
  ELSE IF Cardinality(busy) = 1 THEN in.sub_r_data[CHOOSE k \in busy : TRUE]
  ELSE Unknowns(cfg.dw)

DecCheck(cfg, st, in, o) ==
  LET sel == Selected(cfg, in.addr) IN
  IF \E k \in 1..Len(cfg.subs) : o.subs[k].r_stb # (IF k \in sel THEN in.r_stb ELSE 0) THEN "sub.r_stb"
  ELSE IF \E k \in 1..Len(cfg.subs) : o.subs[k].w_stb # (IF k \in sel THEN in.w_stb ELSE 0) THEN "sub.w_stb"
  ELSE IF \E k \in sel : (in.r_stb = 1 \/ in.w_stb = 1)
                         /\ o.subs[k].addr # in.addr % Pow2(cfg.subs[k].aw) THEN "sub.addr"
  ELSE IF \E k \in sel : in.w_stb = 1 /\ o.subs[k].w_data # in.w_data THEN "sub.w_data"
  ELSE IF ~Matches(ExpRData(cfg, in), o.r_data) THEN "bus.r_data"
  ELSE IF o.stray # 0 THEN "strobe on a bus that is not a subordinate"
  ELSE "none"
====
