---- MODULE MemoryMap_MC ----
(* Leg A for C02 / C03 / C18: every history of calls (bounded number of placed items) over a    *)
(* small universe: a root map (aw = 3, alignment 0 or 1), a same-width map (aw = 2) and a       *)
(* half-width map (aw = 1) that can become a dense (ratio 2) or sparse window of either, so that  *)
(* trees two windows deep with anonymous absorption occur; explicit and implicit                   *)
(* addresses, per-call alignments, sizes 0-3, invalid arguments, name collisions, align_to,      *)
(* freeze.  Where the specification allows either outcome, both successors are explored.         *)
EXTENDS MemoryMap, TLC, Json
CONSTANTS MaxItems, Export, RootAls, Rich    \* Rich: full numeric product on the root; lean: deeper trees
VARIABLES key, st, lastin
vars == <<key, st, lastin>>
\* the abstract allocator (MemoryMapAbs.tla), one instance per map of this universe
Abs1 == INSTANCE MemoryMapAbs WITH Space <- 8, ritems <- AbsProj(st.maps[1]), cur <- st.maps[1].cursor, frz <- (st.maps[1].frozen = 1)
Abs2 == INSTANCE MemoryMapAbs WITH Space <- 4, ritems <- AbsProj(st.maps[2]), cur <- st.maps[2].cursor, frz <- (st.maps[2].frozen = 1)
Abs3 == INSTANCE MemoryMapAbs WITH Space <- 2, ritems <- AbsProj(st.maps[3]), cur <- st.maps[3].cursor, frz <- (st.maps[3].frozen = 1)
AbsInitOK == Abs1!AInit /\ Abs2!AInit /\ Abs3!AInit            \* checked in the initial states (see Init)
AbsSafe == Abs1!Safe /\ Abs2!Safe /\ Abs3!Safe                 \* = what TLAPS derives; TLC agrees on this universe

Prelude(al) == << [call |-> "new", aw |-> 3, dw |-> 16, al |-> al],
                  [call |-> "new", aw |-> 2, dw |-> 16, al |-> 0],
                  [call |-> "new", aw |-> 1, dw |-> 8,  al |-> 1] >>
RECURSIVE Run(_, _)
Run(s, cs) == IF cs = <<>> THEN s ELSE Run(MmStep(<<>>, s, Head(cs)), Tail(cs))
S0(al) == Run(MmInit(<<>>), Prelude(al))

Blank == [ok |-> 1, start |-> 0, stop |-> 0, ratio |-> 0, ret |-> 0]
AddRes(m, r, n, sz, a, al, bad) ==
  Blank @@ [call |-> "add_resource", m |-> m, res |-> r, name |-> n, size |-> sz, addr |-> a,
            alignment |-> al, bad |-> bad]
AddWin(m, w, n, a, sp, bad) ==
  Blank @@ [call |-> "add_window", m |-> m, w |-> w, name |-> n, addr |-> a, sparse |-> sp, bad |-> bad]
Names == {<<"s:a">>, <<"s:b">>, <<"s:a", "s:b">>, <<"i:0">>, <<"s:0">>, <<"s:w">>, <<"s:w", "s:a">>}
Calls ==
  \* layout calls: conflict-free names; the full numeric product when Rich
  (IF Rich THEN {AddRes(1, 1, <<"s:r", "i:0", "s:x">>, sz, a, al, "none") : sz \in 0..3, a \in -1..7, al \in -1..2} \cup
                {AddRes(1, 2, <<"s:q">>, sz, a, al, "none") : sz \in {1, 2}, a \in {-1, 0, 3, 4, 6}, al \in {-1, 1}}
           ELSE {AddRes(1, 1, <<"s:r", "i:0", "s:x">>, sz, a, -1, "none") : sz \in {1, 3}, a \in {-1, 5}}) \cup
  \* name calls
  {AddRes(1, r, n, 1, -1, -1, "none") : r \in {3, 4}, n \in Names} \cup
  {AddRes(2, r, n, 1, -1, -1, "none") : r \in {5, 6}, n \in {<<"s:a">>, <<"s:w", "s:a">>, <<"s:c">>}} \cup
  {AddRes(3, r, n, 1, -1, -1, "none") : r \in {7, 8}, n \in {<<"s:a">>, <<"s:b">>, <<"s:c">>}} \cup
  \* invalid arguments
  {AddRes(1, 9, <<"s:z">>, 1, -1, -1, b) : b \in IF Rich THEN {"size_neg", "size_str", "addr_neg", "al_neg", "name_empty", "not_component"}
                                                        ELSE {"size_neg", "name_empty"}} \cup
  \* windows: into the root, and map 3 into map 2 (trees two windows deep)
  {AddWin(1, w, n, a, sp, "none") : w \in {2, 3}, n \in {<<>>, <<"s:w">>, <<"s:a">>},
                                   a \in IF Rich THEN {-1, 0, 2, 3, 4, 6} ELSE {-1, 4},
                                   sp \in {"none", "true", "false"}} \cup
  {AddWin(2, 3, n, a, sp, "none") : n \in {<<>>, <<"s:w">>}, a \in {-1, 2}, sp \in {"true", "false"}} \cup
  {AddWin(1, 0, <<>>, -1, "none", "not_map")} \cup
  {Blank @@ [call |-> "align_to", m |-> 1, al |-> a] : a \in IF Rich THEN -1..3 ELSE {2}} \cup
  {Blank @@ [call |-> c, m |-> m] : c \in {"freeze"}, m \in {1, 2}} \cup
  {Blank @@ [call |-> "bridge", m |-> 1]}
\* domain: a map is used as a window at most once (a TREE of maps, as C03 and C18 say)
UsedAsWindow(maps, w) == \E m \in 1..Len(maps) : \E it \in maps[m].items : it.kind = "win" /\ it.id = w
InDomain(maps, c) == c.call = "add_window" /\ c.bad = "none" =>
                       (~UsedAsWindow(maps, c.w) \/ \E it \in maps[c.m].items : it.kind = "win" /\ it.id = c.w)

\* the outcomes the specification allows for a call
Accepted(maps, c) ==
  CASE c.call = "add_resource" ->
         {[c EXCEPT !.start = ResStart(maps[c.m], c), !.stop = ResStop(maps[c.m], c)]}
    [] c.call = "add_window" ->
         LET map == maps[c.m]  w == maps[c.w]  r == WinRatio(map, w, c) IN
         IF r = 1 THEN {[c EXCEPT !.start = Win1Start(map, w, c), !.stop = Win1Stop(map, w, c), !.ratio = 1]}
         ELSE {d \in {[c EXCEPT !.start = s, !.stop = s + Pow2(w.aw) \div r, !.ratio = r] : s \in 0..7} : DenseOk(maps, d)}
    [] c.call = "align_to" -> {[c EXCEPT !.ret = AlignUp(maps[c.m].cursor, Max2(c.al, maps[c.m].al))]}
    [] OTHER -> {c}
Outcomes(maps, c) ==
  IF MustReject(maps, c) THEN {[c EXCEPT !.ok = 0]}
  ELSE IF MayReject(maps, c) THEN {[c EXCEPT !.ok = 0]} \cup Accepted(maps, c)
  ELSE Accepted(maps, c)

NItems(s) == Cardinality(s.maps[1].items) + Cardinality(s.maps[2].items) + Cardinality(s.maps[3].items)
Init == /\ key \in RootAls /\ st = S0(key) /\ lastin = <<>>
        /\ Assert(AbsInitOK, "AbsInitOK")
        /\ IF Export THEN PrintT(<<"CFG", ToJson([key |-> key, cfg |-> [prelude |-> Prelude(key)], s0 |-> st])>>) ELSE TRUE
Next == \E c0 \in Calls : \E c \in Outcomes(st.maps, c0) :
          /\ InDomain(st.maps, c0)
          /\ st' = MmStep(<<>>, st, c)
          /\ lastin' = c
          /\ UNCHANGED key
Spec == Init /\ [][Next]_vars
View == <<key, st>>
Bound == NItems(st) <= MaxItems

\* ---- C02 --------------------------------------------------------------------------------------
Maps == 1..3
Disjoint == \A m \in Maps : \A x, y \in st.maps[m].items : x # y => x.stop <= y.start \/ y.stop <= x.start
InBounds == \A m \in Maps : \A x \in st.maps[m].items : 0 <= x.start /\ x.start < x.stop /\ x.stop <= Pow2(st.maps[m].aw)
MapAligned == \A m \in Maps : \A x \in st.maps[m].items :
                x.start % Pow2(st.maps[m].al) = 0 /\ (x.ratio = 1 => x.stop % Pow2(st.maps[m].al) = 0)
Props ==
  LET c == lastin'  maps == st.maps IN
  \* a call that raises leaves everything unchanged
  /\ Assert(c.ok = 0 => st' = st, <<"ErrLeavesAllUnchanged", c>>)
  \* once frozen every add raises
  /\ Assert(c.call \in {"add_resource", "add_window"} /\ maps[c.m].frozen = 1 => c.ok = 0, <<"FrozenRejectsAdds", c>>)
  \* explicit address honoured exactly
  /\ Assert(c.call \in {"add_resource", "add_window"} /\ c.ok = 1 /\ c.addr >= 0 => c.start = c.addr, <<"ExplicitExact", c>>)
  \* implicit placement: the first suitably aligned address at or after the cursor (resources, ratio-1 windows)
  /\ Assert(c.call = "add_resource" /\ c.ok = 1 /\ c.addr < 0 =>
              LET e == Pow2(ResEff(maps[c.m], c)) IN
              /\ c.start >= maps[c.m].cursor /\ c.start % e = 0
              /\ \A a \in maps[c.m].cursor..(c.start - 1) : a % e # 0, <<"ImplicitFirstFit", c, maps[c.m].cursor>>)
  /\ Assert(c.call = "add_window" /\ c.ok = 1 /\ c.addr < 0 /\ c.ratio = 1 =>
              LET e == Pow2(Max2(maps[c.m].al, maps[c.w].aw)) IN
              /\ c.start >= maps[c.m].cursor /\ c.start % e = 0
              /\ \A a \in maps[c.m].cursor..(c.start - 1) : a % e # 0, <<"ImplicitFirstFitWindow", c>>)
  \* covers at least the requested size rounded to the effective alignment
  /\ Assert(c.call = "add_resource" /\ c.ok = 1 =>
              LET e == Pow2(ResEff(maps[c.m], c)) IN
              c.stop - c.start >= Max2(c.size, 1) /\ (c.stop - c.start) % e = 0 /\ c.stop - c.start < Max2(c.size, 1) + e,
            <<"CoversRequest", c>>)
  /\ Assert(c.call = "add_window" /\ c.ok = 1 => c.stop - c.start >= Pow2(maps[c.w].aw) \div c.ratio, <<"WindowSize", c>>)
  \* the cursor is the end of the most recently added item, or where align_to moved it
  /\ Assert(c.call \in {"add_resource", "add_window"} /\ c.ok = 1 => st'.maps[c.m].cursor = c.stop, <<"CursorIsEnd", c>>)
  /\ Assert(c.call = "align_to" /\ c.ok = 1 =>
              LET e == Pow2(Max2(c.al, maps[c.m].al)) IN
              /\ c.ret >= maps[c.m].cursor /\ c.ret % e = 0 /\ c.ret - maps[c.m].cursor < e
              /\ st'.maps[c.m].cursor = c.ret, <<"AlignToRule", c>>)
  \* a window is frozen by being used
  /\ Assert(c.call = "add_window" /\ c.ok = 1 => st'.maps[c.w].frozen = 1, <<"WindowFrozen", c>>)
  \* ---- C18: accepted exactly when the name is neither equal to, a prefix of, nor an extension of a visible name
  /\ Assert(c.call = "add_resource" /\ c.bad = "none" /\ c.ok = 1 =>
              \A v \in Visible(maps, c.m) : ~IsPrefix(c.name, v) /\ ~IsPrefix(v, c.name), <<"AcceptedOnlyIfFree", c>>)
  /\ Assert(c.call = "add_resource" /\ c.bad = "none" /\ c.ok = 0 /\ maps[c.m].frozen = 0
              /\ (\A v \in Visible(maps, c.m) : ~IsPrefix(c.name, v) /\ ~IsPrefix(v, c.name)) =>
              \* then the refusal has another stated reason
              \/ (\E it \in maps[c.m].items : it.kind = "res" /\ it.id = c.res)
              \/ ResStop(maps[c.m], c) > Pow2(maps[c.m].aw)
              \/ Overlaps(maps[c.m], ResStart(maps[c.m], c), ResStop(maps[c.m], c))
              \/ (c.addr >= 0 /\ c.addr % Pow2(ResEff(maps[c.m], c)) # 0), <<"LegalNameNeverRefused", c>>)
  \* ---- every step of every map is a step of the abstract allocator that TLAPS proves safe for all sizes
  /\ Assert(Abs1!ANextObs /\ Abs2!ANextObs /\ Abs3!ANextObs, <<"AbsRefines", c>>)
  /\ Assert(AbsStepOK(st, st'), <<"AbsStepOK (the form used in trace validation)", c>>)
  \* ---- ... and every step is a step of the abstract name space that TLAPS proves prefix-free for every forest
  /\ Assert(AbsNamesOK(st, st'), <<"AbsNamesOK: refines NamesAbs!NamesRel", c>>)
  /\ IF Export THEN PrintT(<<"EDGE", ToJson([key |-> key, s |-> st, i |-> c, t |-> st'])>>) ELSE TRUE
\* consequence: reported paths are pairwise distinct (and prefix-free)
PathsDistinct == \A m \in Maps : LET rs == AllRes(st.maps, m) IN
                   \A i, j \in 1..Len(rs) : i # j => rs[i].path # rs[j].path
VisiblePrefixFree == \A m \in Maps : \A it1, it2 \in st.maps[m].items :
                       it1 # it2 /\ it1.name # <<>> /\ it2.name # <<>> => ~Conflict(it1.name, it2.name)
\* ---- C03 on every reachable tree ------------------------------------------------------------------
LookupCoherent == \A m \in Maps :
   LET rs == AllRes(st.maps, m) IN
   /\ \A i \in 1..(Len(rs) - 1) : rs[i].stop <= rs[i + 1].start                     \* ascending, disjoint
   /\ \A a \in 0..(Pow2(st.maps[m].aw) - 1) :
        LET own == {k \in 1..Len(rs) : rs[k].start <= a /\ a < rs[k].stop} IN
        IF own = {} THEN Decode(st.maps, m, a) = 0
        ELSE Decode(st.maps, m, a) = rs[CHOOSE k \in own : TRUE].id
   /\ \A i, j \in 1..Len(rs) : i # j => rs[i].id # rs[j].id                          \* each exactly once
\* ---- C01, design level: the pattern view agrees with the map view -----------------------------
\* what the generated decoders do: a resource is hit by range; a window is selected iff the high
\* address bits equal start >> window.addr_width, and the low bits are forwarded
RECURSIVE PatDecode(_, _, _)
PatDecode(maps, m, a) ==
  LET rs == {it \in maps[m].items : it.kind = "res" /\ it.start <= a /\ a < it.stop}
      ws == {it \in maps[m].items : it.kind = "win" /\ it.ratio = 1
                                    /\ a \div Pow2(maps[it.id].aw) = it.start \div Pow2(maps[it.id].aw)} IN
  IF rs # {} THEN (CHOOSE it \in rs : TRUE).id
  ELSE IF ws = {} THEN 0
  ELSE LET w == CHOOSE it \in ws : TRUE IN PatDecode(maps, w.id, a % Pow2(maps[w.id].aw))
AllRatio1 == \A m \in Maps : \A it \in st.maps[m].items : it.ratio = 1
WindowsAtMultiplesOfSize == \A m \in Maps : \A it \in st.maps[m].items :
                              it.kind = "win" => it.start % Pow2(st.maps[it.id].aw) = 0
Agree == \A a \in 0..(Pow2(st.maps[1].aw) - 1) : PatDecode(st.maps, 1, a) = Decode(st.maps, 1, a)
PatternAgreesWithMap == AllRatio1 /\ WindowsAtMultiplesOfSize => Agree
PatternAgreesEvenUnaligned == AllRatio1 => Agree         \* vacuity witness: must be refuted
\* vacuity witnesses (must be refuted)
NoDenseWindowEver == \A x \in st.maps[1].items : x.ratio = 1
NoAnonymousAbsorb == ~(\E x \in st.maps[1].items : x.kind = "win" /\ x.name = <<>> /\ st.maps[x.id].items # {})
====
