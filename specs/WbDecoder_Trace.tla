---- MODULE WbDecoder_Trace ----
EXTENDS WbDecoder, TraceRunner
====
