---- MODULE NamesAbs ----
(* Property C18 for EVERY forest of memory maps and every universe of names: whatever sequence of     *)
(* accepted calls, the names visible in a map never conflict, and what a window brought in stays        *)
(* exactly what it was (because a map is frozen the moment it becomes a window).                        *)
(* Conflict is only assumed SYMMETRIC - nothing else about names is used - so the argument covers       *)
(* strings versus integers, any length, shared prefixes.  TLAPS: NamesAbs_Proof.tla.  TLC checks that   *)
(* MemoryMap.tla refines NamesRel on every transition of MemoryMap_MC, trace validation evaluates it    *)
(* on every recorded call of the real MemoryMap (clause "abstract name-space step").                    *)
EXTENDS NamesAbsOps
CONSTANTS Maps, Names, Conflict(_, _)
ASSUME Symmetric == \A x \in Names : \A y \in Names : Conflict(x, y) => Conflict(y, x)
VARIABLES vis, frz, anon
nvars == <<vis, frz, anon>>

NInit == /\ vis = [m \in Maps |-> {}]
         /\ frz = [m \in Maps |-> FALSE]
         /\ anon = [m \in Maps |-> {}]
NNext == NamesRel(Maps, Conflict, vis, frz, anon, vis', frz', anon')
NSpec == NInit /\ [][NNext]_nvars

NTypeOK == /\ vis \in [Maps -> SUBSET Names]
           /\ frz \in [Maps -> BOOLEAN]
           /\ anon \in [Maps -> SUBSET Maps]
\* what C18 promises
PrefixFree == \A m \in Maps : \A x \in vis[m] : \A y \in vis[m] : x # y => ~Conflict(x, y)
\* what keeps it true across levels: an absorbed map is frozen and all its names are visible in the absorber
Absorbed == \A m \in Maps : \A c \in anon[m] : frz[c] /\ vis[c] \subseteq vis[m]
NInv == NTypeOK /\ PrefixFree /\ Absorbed
\* a frozen map's name space never changes again
FrozenNames == [][\A m \in Maps : frz[m] => vis'[m] = vis[m] /\ frz'[m]]_nvars
====
