---- MODULE Util ----
(* Small arithmetic and bit-vector helpers shared by every specification.                  *)
(* A bit vector is a sequence of 0/1, least significant bit first; 2 (= U) means "the      *)
(* property does not constrain this bit" and matches any observation.                      *)
EXTENDS Naturals, Sequences, FiniteSets

U == 2
Pow2(n) == 2 ^ n
Max2(a, b) == IF a >= b THEN a ELSE b
Min2(a, b) == IF a <= b THEN a ELSE b
MinOf(S) == CHOOSE x \in S : \A y \in S : x <= y
MaxOf(S) == CHOOSE x \in S : \A y \in S : x >= y
AlignUp(v, a) == IF v % Pow2(a) = 0 THEN v ELSE v + Pow2(a) - (v % Pow2(a))
CeilDiv(a, b) == (a + b - 1) \div b
RECURSIVE CeilLog2(_)
CeilLog2(n) == IF n <= 1 THEN 0 ELSE 1 + CeilLog2((n + 1) \div 2)

Zeros(n)    == [k \in 1..n |-> 0]
Ones(n)     == [k \in 1..n |-> 1]
Unknowns(n) == [k \in 1..n |-> U]
Bit(b)      == IF b THEN 1 ELSE 0

\* does the observed vector satisfy the expected one (U = don't care)?
Matches(exp, obs) == /\ Len(exp) = Len(obs)
                     /\ \A k \in 1..Len(exp) : exp[k] = U \/ exp[k] = obs[k]
\* slice [lo, lo+n) (0-based lo) of v, zero beyond Len(v)
Slice(v, lo, n) == [k \in 1..n |-> IF lo + k <= Len(v) THEN v[lo + k] ELSE 0]
\* every bit of v replicated r times (select fan-out to a finer granularity)
FanOut(v, r) == [k \in 1..(Len(v) * r) |-> v[((k - 1) \div r) + 1]]
OrVec(a, b) == [k \in 1..Len(a) |-> IF a[k] = 1 \/ b[k] = 1 THEN 1 ELSE 0]
AnyBit(v)  == \E k \in 1..Len(v) : v[k] = 1
RECURSIVE BitsToNat(_)
BitsToNat(v) == IF Len(v) = 0 THEN 0 ELSE v[1] + 2 * BitsToNat(Tail(v))
NatToBits(x, n) == [k \in 1..n |-> (x \div Pow2(k - 1)) % 2]
BitVecs(n) == [1..n -> {0, 1}]
SeqToSet(s) == {s[k] : k \in 1..Len(s)}
====
