---- MODULE SocSys2 ----
(* The system of SocSys.tla with a full CSR side:                                                    *)
(*   ... -> WishboneCSRBridge -> csr.Decoder -> { csr.Bridge (multiplexer + RW / read-only registers), *)
(*                                               csr.event.EventMonitor, gpio.Peripheral }             *)
(* composed from WbArbiter, WbSram, WbCsrBridge, CsrMux, CsrEventMon (= CsrMux o EventMon) and Gpio     *)
(* (= builder layout o CsrMux o pin logic).  Only the CSR decoder's routing is written here: a window   *)
(* gets the strobes when it contains the address, the low address bits, the write data; read data is    *)
(* the OR of the (zero-when-idle) subordinates.                                                         *)
(* cfg = SocSys's cfg + [wins |-> << [start, aw] >> (windows of the register bridge, the event monitor   *)
(*        and the GPIO inside the CSR decoder, as returned by Decoder.add),                              *)
(*        emon |-> CsrEventMon's cfg, gpio |-> Gpio's cfg]                                               *)
(* st  = SocSys's st + [emon, gpio]                                                                       *)
(* in  = SocSys's in + [ev |-> bits (event source lines), pins |-> bits (pin input levels)]               *)
(* obs = SocSys's obs + [irq, o, oe, alt]                                                                 *)
EXTENDS SocSys, CsrEventMon, Gpio

Sys2Init(cfg) == LET s == SysInit(cfg) IN
  [arb |-> s.arb, sram |-> s.sram, br |-> s.br, mux |-> s.mux, store |-> s.store,
   emon |-> EmonInit(cfg.emon), gpio |-> GpInit(cfg.gpio)]

InWin(w, a) == w.start <= a /\ a < w.start + Pow2(w.aw)
\* what window k sees of it
SubAcc(cfg, c, k) ==
  LET hit == InWin(cfg.wins[k], c.addr) IN
  [addr |-> IF hit THEN c.addr - cfg.wins[k].start ELSE 0,
   r_stb |-> IF hit THEN c.r_stb ELSE 0, w_stb |-> IF hit THEN c.w_stb ELSE 0,
   w_data |-> IF c.w_stb = 1 THEN c.w_data ELSE Zeros(cfg.cdw)]
\* read data going up: the subordinates are zero when idle, so at most one contributes
Busy2(v) == \E b \in 1..Len(v) : v[b] # 0
OrUp(cfg, vs) ==
  LET busy == {k \in 1..Len(vs) : Busy2(vs[k])} IN
  IF busy = {} THEN Zeros(cfg.cdw)
  ELSE IF Cardinality(busy) = 1 THEN vs[CHOOSE k \in busy : TRUE]
  ELSE Unknowns(cfg.cdw)
\* once a peripheral has taken a write whose data the CSR protocol does not determine (two initiators interleaving
\* partial writes to one multi-chunk register), CsrEventMon / Gpio say nothing more about it - nor, then, about
\* the data it returns
RdOf(cfg, x) == IF x.lost = 1 THEN Unknowns(cfg.cdw) ELSE x.mux.rd
CsrUp(cfg, st) == OrUp(cfg, <<st.mux.rd, RdOf(cfg, st.emon), RdOf(cfg, st.gpio)>>)
BridgeIn2(cfg, st, b) == [BridgeIn(cfg, st, b) EXCEPT !.csr_r_data = CsrUp(cfg, st)]

\* the CSR access the bridge issues in this cycle
CsrAcc(cfg, st, in) == BrCsr(BrCfg(cfg), st.br, BridgeIn2(cfg, st, Shared(cfg, st, in)))

\* one clock edge: as in SocSys, but the bridge latches the decoder's read data
Sys2Step(cfg, st, in) ==
  LET b  == Shared(cfg, st, in)
      c  == CsrAcc(cfg, st, in)
      a1 == SubAcc(cfg, c, 1)  a2 == SubAcc(cfg, c, 2)  a3 == SubAcc(cfg, c, 3)
      mi == [addr |-> a1.addr, r_stb |-> a1.r_stb, w_stb |-> a1.w_stb, w_data |-> a1.w_data,
             rdata |-> [k \in 1..Len(cfg.regs) |-> IF cfg.regs[k].kind = "rw" THEN st.store[k] ELSE in.ro[k]]] IN
  [arb   |-> ArbStep(ArbCfg(cfg), st.arb, ArbIn(cfg, in, TgtResp(cfg, st, b))),
   sram  |-> SrStep(SramCfg(cfg), st.sram, SramIn(cfg, b)),
   br    |-> BrStep(BrCfg(cfg), st.br, BridgeIn2(cfg, st, b)),
   mux   |-> MuxStep(SysMuxCfg(cfg), st.mux, mi),
   store |-> [k \in 1..Len(cfg.regs) |->
                IF cfg.regs[k].kind = "rw" /\ ExpWStb(st.mux, k) THEN st.mux.wdat ELSE st.store[k]],
   emon  |-> EmonStep(cfg.emon, st.emon, [addr |-> a2.addr, r_stb |-> a2.r_stb, w_stb |-> a2.w_stb,
                                           w_data |-> a2.w_data, i |-> in.ev]),
   gpio  |-> GpStep(cfg.gpio, st.gpio, [addr |-> a3.addr, r_stb |-> a3.r_stb, w_stb |-> a3.w_stb,
                                         w_data |-> a3.w_data, i |-> in.pins])]

Sys2Check(cfg, st, in, o) ==
  LET base == SysCheck(cfg, st, in, o) IN
  IF base # "none" THEN base
  ELSE IF st.emon.lost = 0 /\ o.irq # Irq(cfg.emon, st.emon) THEN "interrupt line"
  ELSE IF st.gpio.lay = 0 THEN "GPIO register layout"
  ELSE IF st.gpio.lost = 0 /\ \E n \in 1..P(cfg.gpio) : o.o[n] # PinO(st.gpio, n) THEN "pin.o"
  ELSE IF st.gpio.lost = 0 /\ \E n \in 1..P(cfg.gpio) : o.oe[n] # PinOe(st.gpio, n) THEN "pin.oe"
  ELSE IF st.gpio.lost = 0 /\ \E n \in 1..P(cfg.gpio) : o.alt[n] # PinAlt(st.gpio, n) THEN "alt_mode"
  ELSE "none"
====
