---- MODULE EventMap_MC ----
(* Leg A for the API half of C13: every history of add (with repeats, and of non-sources),   *)
(* index, freeze over S sources up to depth D.                                               *)
EXTENDS EventMap, TLC, Json
CONSTANTS S, D, Export
VARIABLES st, hist, lastin
cfg == [s |-> S]
Calls == {[call |-> c, src |-> s] : c \in {"add", "index"}, s \in 0..S} \cup
         {[call |-> "freeze", src |-> 0], [call |-> "query", src |-> 0]}
Init == /\ st = EmInit(cfg) /\ hist = <<>> /\ lastin = <<>>
        /\ IF Export THEN PrintT(<<"CFG", ToJson([key |-> cfg, cfg |-> cfg, s0 |-> st])>>) ELSE TRUE
Next == \E c \in Calls :
          /\ st' = EmStep(cfg, st, c)
          /\ hist' = IF c.call = "add" /\ [ret |-> "ok", val |-> 0] \in EmRet(cfg, st, c)
                     THEN Append(hist, c.src) ELSE hist
          /\ lastin' = c
Spec == Init /\ [][Next]_<<st, hist, lastin>>
View == <<st, hist>>
ViewSt == st
Bound == TLCGet("level") <= D

\* first occurrences of the accepted adds, in order
RECURSIVE Dedupe(_, _)
Dedupe(h, seen) == IF h = <<>> THEN <<>>
                   ELSE IF Head(h) \in seen THEN Dedupe(Tail(h), seen)
                   ELSE <<Head(h)>> \o Dedupe(Tail(h), seen \cup {Head(h)})
FirstAdditionOrder == st.order = Dedupe(hist, {})
Dense == \A k \in 1..Len(st.order) : IndexOf(st, st.order[k]) = k - 1
Stable == [][\A s \in 1..S : Has(st, s) => Has(st', s) /\ IndexOf(st', s) = IndexOf(st, s)]_<<st, hist, lastin>>
FrozenRejects == [][st.frozen => st'.order = st.order /\ st'.frozen]_<<st, hist, lastin>>
Log == IF Export THEN PrintT(<<"EDGE", ToJson([key |-> cfg, s |-> st, i |-> lastin', t |-> st'])>>) ELSE TRUE
====
