---- MODULE Ports ----
(* Static structure (property C20): the member tables of every signature class as functions of  *)
(* their parameters, port direction by role, and signature equality.  A record logged by the     *)
(* harness is validated here; there is no state to explore - TLC is the oracle and, through      *)
(* Ports_MC, the enumerator of the parameter tuples.                                             *)
(*   in.kind = "members":  in.cls, in.p (parameters)       obs.members = << <<name, flow, width>> >> *)
(*   in.kind = "port":     same + in.role ("target" | "initiator"), obs.members as seen from the  *)
(*                         component, obs.connect = 1 iff wiring.connect() with the complementary  *)
(*                         standard interface of the same parameters succeeded                     *)
(*   in.kind = "roundtrip": obs.ok = 1 iff sig.create().signature == sig                            *)
(*   in.kind = "eq":       in.p, in.q two parameter tuples of one class, obs.eq = 1 iff sig(p) == sig(q) *)
EXTENDS Util
PtInit(cfg) == [x |-> 0]
PtStep(cfg, st, in) == st

M(n, f, w) == <<n, f, w>>
Readable(a) == a \in {"r", "rw"}
Writable(a) == a \in {"w", "rw"}
Members(cls, p) ==
  CASE cls = "csr.Signature" ->
         {M("addr", "Out", p.aw), M("r_data", "In", p.dw), M("r_stb", "Out", 1), M("w_data", "Out", p.dw), M("w_stb", "Out", 1)}
    [] cls = "csr.Element.Signature" ->
         (IF Readable(p.access) THEN {M("r_data", "In", p.w), M("r_stb", "Out", 1)} ELSE {}) \cup
         (IF Writable(p.access) THEN {M("w_data", "Out", p.w), M("w_stb", "Out", 1)} ELSE {})
    [] cls = "csr.FieldPort.Signature" ->
         {M("r_data", "In", p.w), M("r_stb", "Out", 1), M("w_data", "Out", p.w), M("w_stb", "Out", 1)}
    [] cls = "wishbone.Signature" ->
         {M("adr", "Out", p.aw), M("dat_w", "Out", p.dw), M("dat_r", "In", p.dw), M("sel", "Out", p.dw \div p.gran),
          M("cyc", "Out", 1), M("stb", "Out", 1), M("we", "Out", 1), M("ack", "In", 1)} \cup
         (IF p.feat.err = 1 THEN {M("err", "In", 1)} ELSE {}) \cup
         (IF p.feat.rty = 1 THEN {M("rty", "In", 1)} ELSE {}) \cup
         (IF p.feat.stall = 1 THEN {M("stall", "In", 1)} ELSE {}) \cup
         (IF p.feat.lock = 1 THEN {M("lock", "Out", 1)} ELSE {}) \cup
         (IF p.feat.cti = 1 THEN {M("cti", "Out", 3)} ELSE {}) \cup
         (IF p.feat.bte = 1 THEN {M("bte", "Out", 2)} ELSE {})
    [] cls = "event.Source.Signature" -> {M("i", "Out", 1), M("trg", "In", 1)}
    [] cls = "gpio.PinSignature" -> {M("i", "In", 1), M("o", "Out", 1), M("oe", "Out", 1)}
FlipFlow(f) == IF f = "In" THEN "Out" ELSE "In"
Flip(ms) == {M(m[1], FlipFlow(m[2]), m[3]) : m \in ms}
\* a component's bus-facing port, as seen from the component: a target port is the flipped signature
PortMembers(cls, p, role) == IF role = "target" THEN Flip(Members(cls, p)) ELSE Members(cls, p)
\* connect(): same member names and widths, exactly one driver per member
Connectable(a, b) == /\ {<<m[1], m[3]>> : m \in a} = {<<m[1], m[3]>> : m \in b}
                     /\ \A m \in a : \E n \in b : n[1] = m[1] /\ n[2] # m[2]

PtCheck(cfg, st, in, o) ==
  CASE in.kind = "members" ->
         IF SeqToSet(o.members) # Members(in.cls, in.p) THEN "signature members" ELSE "none"
    [] in.kind = "port" ->
         IF SeqToSet(o.members) # PortMembers(in.cls, in.p, in.role) THEN "port direction / members"
         ELSE IF ~Connectable(PortMembers(in.cls, in.p, in.role),
                              PortMembers(in.cls, in.p, IF in.role = "target" THEN "initiator" ELSE "target"))
              THEN "specification: roles are not complementary"
         ELSE IF o.connect # 1 THEN "wiring.connect() failed"
         ELSE "none"
    [] in.kind = "roundtrip" -> IF o.ok # 1 THEN "create() round trip" ELSE "none"
    [] in.kind = "eq" -> IF o.eq # Bit(in.p = in.q) THEN "signature equality" ELSE "none"
    [] OTHER -> "unknown record"
====
