---- MODULE Periph ----
(* Beyond the listed properties: amaranth_soc.periph (ConstantBool, ConstantInt, ConstantMap,     *)
(* PeripheralInfo) as documented.  Not claimed in MANIFEST.json; run with `./check XP1`.          *)
(*   in.kind = "int":  value, width (-1: default), signed ("none" | "true" | "false" | "bad")       *)
(*             obs = [ok, width, signed (0/1)]                                                      *)
(*   in.kind = "map":  entries << [key, tag ("bool" | "int" | "cint" | "cbool" | "bad"), value] >>   *)
(*             obs = [ok, keys << >>, kinds << "bool" | "int" >>, values << >>, len]                  *)
(*   in.kind = "info": map_ok (0: not a MemoryMap), irq ("none" | "source" | "bad"),                  *)
(*             cmap ("none" | "map" | "bad")                                                          *)
(*             obs = [ok, frozen (adds refused afterwards), irq ("source" | "NotImplementedError"),   *)
(*                    cmap_len]                                                                       *)
(*   in.kind = "csr_map" / "wb_map": bus geometry (aw, dw[, gran]) and map geometry (maw, mdw),       *)
(*             is_map (0: not a MemoryMap); obs = [ok, has (memory_map readable afterwards)]           *)
EXTENDS Util, Integers
PpInit(cfg) == [x |-> 0]
PpStep(cfg, st, in) == st
Abs(n) == IF n < 0 THEN -n ELSE n
\* amaranth.utils.bits_for: bits needed to represent n (a sign bit for negative numbers and for 0)
BitsFor(n) == IF n > 0 THEN CeilLog2(n + 1) ELSE CeilLog2(Abs(n)) + 1
IntOK(in) == /\ in.signed # "bad"
             /\ (in.width = -1 \/ in.width >= BitsFor(in.value))
PpCheck(cfg, st, in, o) ==
  CASE in.kind = "int" ->
         IF o.ok # Bit(IntOK(in)) THEN "ConstantInt acceptance"
         ELSE IF o.ok = 1 /\ o.width # (IF in.width = -1 THEN BitsFor(in.value) ELSE in.width) THEN "ConstantInt.width"
         ELSE IF o.ok = 1 /\ o.signed # (IF in.signed = "none" THEN Bit(in.value < 0) ELSE Bit(in.signed = "true"))
              THEN "ConstantInt.signed"
         ELSE "none"
    [] in.kind = "map" ->
         LET good == \A k \in 1..Len(in.entries) : in.entries[k].tag # "bad" IN
         IF o.ok # Bit(good) THEN "ConstantMap acceptance"
         ELSE IF o.ok = 0 THEN "none"
         ELSE IF o.len # Len(in.entries) THEN "ConstantMap length"        \* keys are distinct by construction
         ELSE IF o.keys # [k \in 1..Len(in.entries) |-> in.entries[k].key] THEN "ConstantMap insertion order"
         \* a Python bool is a ConstantBool, never an integer
         ELSE IF o.kinds # [k \in 1..Len(in.entries) |-> IF in.entries[k].tag \in {"bool", "cbool"} THEN "bool" ELSE "int"]
              THEN "ConstantMap value kinds"
         ELSE IF o.values # [k \in 1..Len(in.entries) |-> in.entries[k].value] THEN "ConstantMap values"
         ELSE "none"
    [] in.kind = "info" ->
         LET good == in.map_ok = 1 /\ in.irq # "bad" /\ in.cmap # "bad" IN
         IF o.ok # Bit(good) THEN "PeripheralInfo acceptance"
         \* the memory map is frozen as soon as it passed its own type check, whatever follows
         ELSE IF in.map_ok = 1 /\ o.frozen # 1 THEN "PeripheralInfo freezes the memory map"
         ELSE IF o.ok = 0 THEN "none"
         ELSE IF o.irq # (IF in.irq = "source" THEN "source" ELSE "NotImplementedError") THEN "PeripheralInfo.irq"
         ELSE IF in.cmap = "none" /\ o.cmap_len # 0 THEN "default constant map"
         ELSE "none"
    \* Interface.memory_map setters: the map's geometry must be the bus's
    [] in.kind = "csr_map" ->
         IF o.ok # Bit(in.is_map = 1 /\ in.maw = in.aw /\ in.mdw = in.dw) THEN "csr.Interface.memory_map acceptance"
         ELSE IF o.has # o.ok THEN "csr.Interface.memory_map readback"
         ELSE "none"
    [] in.kind = "wb_map" ->
         LET g == in.dw \div in.gran IN
         IF o.ok # Bit(in.is_map = 1 /\ in.mdw = in.gran /\ in.maw = Max2(1, in.aw + CeilLog2(g)))
            THEN "wishbone.Interface.memory_map acceptance"
         ELSE IF o.has # o.ok THEN "wishbone.Interface.memory_map readback"
         ELSE "none"
    [] OTHER -> "unknown record"
====
