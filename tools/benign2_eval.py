#!/usr/bin/env python3
"""Evaluate property-preserving changes written by sub-agents (second benign corpus).

usage: tools/benign2_eval.py <out-dir with A.diff/B.diff/A.json/B.json> <property id>

Each diff is applied to a scratch copy of /repo, the pinned tests are run, and every quick check whose
component is touched by the diff (plus the named property's own check) must stay at exit 0.  The diff is
filed as benign/<property>-<A|B>.diff with benign/<property>-<A|B>.json (summary + results)."""
import json
import os
import re
import shutil
import subprocess
import sys
import tempfile
from concurrent.futures import ThreadPoolExecutor

VERIF = os.path.dirname(os.path.dirname(os.path.abspath(__file__)))
BY_FILE = {
    "amaranth_soc/memory.py": ["C02", "C03", "C18", "C17", "C06", "C07", "C01"],
    "amaranth_soc/csr/bus.py": ["C04", "C05", "C06", "C10", "C14", "C16", "C01", "C19", "C20"],
    "amaranth_soc/csr/reg.py": ["C11", "C17", "C14", "C16", "C01", "C19", "C20"],
    "amaranth_soc/csr/action.py": ["C12", "C11", "C16", "C19"],
    "amaranth_soc/csr/event.py": ["C14", "C19", "C20"],
    "amaranth_soc/csr/wishbone.py": ["C10", "C01", "C19", "C20"],
    "amaranth_soc/event.py": ["C13", "C14", "C19", "C20"],
    "amaranth_soc/gpio.py": ["C16", "C19", "C20"],
    "amaranth_soc/wishbone/bus.py": ["C07", "C08", "C09", "C15", "C10", "C01", "C19", "C20"],
    "amaranth_soc/wishbone/sram.py": ["C15", "C01", "C19", "C20"],
    "amaranth_soc/periph.py": ["XP1"],
}


def one(args):
    outdir, prop, label = args
    patch = os.path.join(outdir, label + ".diff")
    if not os.path.exists(patch) or not open(patch).read().strip():
        return label, None
    files = re.findall(r"^\+\+\+ b/(\S+)", open(patch).read(), flags=re.M)
    checks = [prop]
    for f in files:
        for c in BY_FILE.get(f, []):
            if c not in checks:
                checks.append(c)
    d = tempfile.mkdtemp(prefix="benign2-")
    try:
        shutil.copytree("/repo/amaranth_soc", os.path.join(d, "amaranth_soc"))
        shutil.copytree("/repo/tests", os.path.join(d, "tests"))
        subprocess.run(f"patch -p1 -s < {patch}", shell=True, cwd=d, check=True)
        t = subprocess.run("/venv/bin/python -m pytest -q -p no:cacheprovider tests 2>&1 | tail -1", shell=True,
                           cwd=d, env={**os.environ, "PYTHONPATH": d}, capture_output=True, text=True).stdout.strip()
        res, detail = {}, {}
        for c in checks:
            p = subprocess.run(["./check", c, "--tier", "quick"], cwd=VERIF, env={**os.environ, "VERIF_REPO": d},
                               capture_output=True, text=True)
            res[c] = p.returncode
            if p.returncode != 0:
                detail[c] = [l for l in p.stdout.splitlines() if "what:" in l or "MACHINERY" in l or l.startswith("VIOLATION")][:4] \
                            + p.stderr.splitlines()[-3:]
        meta = {}
        try:
            meta = json.load(open(os.path.join(outdir, label + ".json")))
        except Exception:
            pass
        meta.update(files=files, tests=t, checks=res)
        if detail:
            meta["alarm_detail"] = detail
        os.makedirs(os.path.join(VERIF, "benign"), exist_ok=True)
        shutil.copy(patch, os.path.join(VERIF, "benign", f"{prop}-{label}.diff"))
        json.dump(meta, open(os.path.join(VERIF, "benign", f"{prop}-{label}.json"), "w"), indent=1)
        return label, meta
    finally:
        shutil.rmtree(d, ignore_errors=True)


def main():
    outdir, prop = sys.argv[1], sys.argv[2]
    with ThreadPoolExecutor(max_workers=2) as ex:
        for label, meta in ex.map(one, [(outdir, prop, "A"), (outdir, prop, "B")]):
            if meta is None:
                print(f"{prop}-{label}: no diff")
                continue
            bad = {k: v for k, v in meta["checks"].items() if v != 0}
            print(f"{prop}-{label}: tests: {meta['tests']}; checks: {meta['checks']}"
                  + (f"  ALARM {json.dumps(meta.get('alarm_detail'))[:1500]}" if bad else "  all silent"))


if __name__ == "__main__":
    main()
