#!/usr/bin/env python3
"""Re-run the second benign corpus (benign/<property>-<A|B>.diff) against the property's own quick check after the
checks were strengthened: every run must stay at exit 0.  usage: tools/benign_rerun.py [SEED]"""
import glob
import os
import re
import shutil
import subprocess
import sys
import tempfile
from concurrent.futures import ThreadPoolExecutor

VERIF = os.path.dirname(os.path.dirname(os.path.abspath(__file__)))


def one(diff):
    name = os.path.basename(diff)[:-5]
    prop = name.split("-")[0]
    t = tempfile.mkdtemp(prefix="bn-")
    try:
        shutil.copytree("/repo/amaranth_soc", os.path.join(t, "amaranth_soc"))
        r = subprocess.run(f"patch -p1 -s < {diff}", shell=True, cwd=t, capture_output=True)
        if r.returncode != 0:
            return name, "patch does not apply"
        p = subprocess.run(["./check", prop, "--tier", "quick"], cwd=VERIF,
                           env={**os.environ, "VERIF_REPO": t, "VERIF_SEED": sys.argv[1] if len(sys.argv) > 1 else "0"},
                           capture_output=True, text=True)
        what = [l for l in p.stdout.splitlines() if l.startswith(("VIOLATION", "  what", "MACHINERY"))][:2]
        return name, (p.returncode, what)
    finally:
        shutil.rmtree(t, ignore_errors=True)


def main():
    diffs = sorted(d for d in glob.glob(os.path.join(VERIF, "benign", "C*-[AB].diff")) if re.search(r"C\d\d-[AB]\.diff$", d))
    bad = 0
    with ThreadPoolExecutor(max_workers=4) as ex:
        for name, res in ex.map(one, diffs):
            if res == "patch does not apply" or res[0] != 0:
                bad += 1
                print(f"ALARM {name}: {res}", flush=True)
    print(f"{len(diffs)} benign changes re-run, {bad} not silent")


if __name__ == "__main__":
    main()
