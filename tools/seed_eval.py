#!/usr/bin/env python3
"""Evaluate seeded changes produced by the independent sub-agents.

usage: tools/seed_eval.py <worktree out dir> <property> [check ids...]
For mutants A and B found in <out dir>: apply the diff to a scratch copy of /repo, confirm that the
pinned test suite still passes there, that the demonstration fails there and passes on the original,
run the named checks (default: the property's own) against the scratch copy, and file the change
under /verif/seeded/<property>-<X>/ with what was run and what the checks said."""
import json
import os
import shutil
import subprocess
import sys
import tempfile

VERIF = os.path.dirname(os.path.dirname(os.path.abspath(__file__)))
PY = "/venv/bin/python"


def sh(cmd, cwd=None, env=None, timeout=3600):
    e = dict(os.environ)
    if env:
        e.update(env)
    p = subprocess.run(cmd, shell=True, cwd=cwd, env=e, stdout=subprocess.PIPE, stderr=subprocess.STDOUT,
                       text=True, timeout=timeout)
    return p.returncode, p.stdout


def main():
    out, prop = sys.argv[1], sys.argv[2]
    checks = sys.argv[3:] or [prop]
    meta_all = {}
    try:
        meta_all = json.load(open(os.path.join(out, "meta.json")))
    except Exception:
        pass
    for x in [x for x in ("A", "B") if os.path.exists(os.path.join(out, f"{x}.diff"))]:
        diff = os.path.join(out, f"{x}.diff")
        demo = os.path.join(out, f"demo_{x}.py")
        if not (os.path.exists(diff) and os.path.exists(demo)):
            print(f"{prop}-{x}: missing deliverables")
            continue
        d = tempfile.mkdtemp(prefix=f"seed-{prop}{x}-")
        try:
            shutil.copytree("/repo/amaranth_soc", os.path.join(d, "amaranth_soc"))
            shutil.copytree("/repo/tests", os.path.join(d, "tests"))
            rc, o = sh(f"patch -p1 -s < {diff}", cwd=d)
            if rc != 0:
                print(f"{prop}-{x}: patch does not apply: {o[-300:]}")
                continue
            env = {"PYTHONPATH": d}
            rc_t, o_t = sh(f"{PY} -m pytest -q -x -p no:cacheprovider tests 2>&1 | tail -3", cwd=d, env=env)
            tests_ok = " passed" in o_t and "failed" not in o_t
            rc_dm, o_dm = sh(f"{PY} {demo}", cwd=d, env=env, timeout=900)
            rc_do, o_do = sh(f"{PY} {demo}", cwd="/repo", env={"PYTHONPATH": "/repo"}, timeout=900)
            res = {}
            for c in checks:
                rc_c, o_c = sh(f"./check {c} --tier quick", cwd=VERIF, env={"VERIF_REPO": d})
                lines = [l for l in o_c.splitlines() if l.startswith(("VIOLATION", "  what", "KNOWN", "MACHINERY"))
                         or "[quick]" in l]
                res[c] = {"exit": rc_c, "lines": lines[:6]}
            detected = [c for c in checks if res[c]["exit"] == 1]
            valid = tests_ok and rc_dm != 0 and rc_do == 0
            print(f"{prop}-{x}: tests_pass={tests_ok} demo_fails_on_mutant={rc_dm != 0} "
                  f"demo_passes_on_original={rc_do == 0} detected_by={detected} "
                  f"exits={ {c: res[c]['exit'] for c in checks} }")
            if valid:
                # later batches are filed under other letters: SEED_LABEL=C (one mutant) or SEED_LABELS=D,E
                label = os.environ.get("SEED_LABEL", x)
                if os.environ.get("SEED_LABELS"):
                    label = dict(zip("AB", os.environ["SEED_LABELS"].split(",")))[x]
                dst = os.path.join(VERIF, "seeded", f"{prop}-{label}")
                os.makedirs(dst, exist_ok=True)
                shutil.copy(diff, os.path.join(dst, "patch.diff"))
                shutil.copy(demo, os.path.join(dst, "demo.py"))
                m = meta_all.get(x, {})
                json.dump({"property": prop, "summary": m.get("summary"), "needs": m.get("needs"),
                           "files": m.get("files"),
                           "confirmed": {"pinned_tests_pass_with_change": tests_ok,
                                         "demo_exit_with_change": rc_dm, "demo_exit_without_change": rc_do},
                           "ran": [f"patch -p1 < patch.diff on a scratch copy of /repo (amaranth_soc + tests)",
                                   "pytest -q tests (scratch copy)", "demo.py on scratch copy and on /repo"]
                                  + [f"VERIF_REPO=<scratch> ./check {c} --tier quick" for c in checks],
                           "checks": res, "detected_by": detected},
                          open(os.path.join(dst, "meta.json"), "w"), indent=1)
            else:
                print("   not kept:", o_t[-200:].replace("\n", " | "), "| demo:", o_dm[-200:].replace("\n", " | "))
        finally:
            shutil.rmtree(d, ignore_errors=True)


if __name__ == "__main__":
    main()
