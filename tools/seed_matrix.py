#!/usr/bin/env python3
"""Re-run every seeded change against its property's quick check for the given seeds (robustness of the
detection w.r.t. the random legs).  usage: tools/seed_matrix.py SEED [SEED...]"""
import glob
import json
import os
import shutil
import subprocess
import sys
import tempfile
from concurrent.futures import ThreadPoolExecutor

VERIF = os.path.dirname(os.path.dirname(os.path.abspath(__file__)))


def one(arg):
    d, seed = arg
    name = os.path.basename(d)
    prop = name.split("-")[0]
    t = tempfile.mkdtemp(prefix="sm-")
    try:
        shutil.copytree("/repo/amaranth_soc", os.path.join(t, "amaranth_soc"))
        r = subprocess.run(f"patch -p1 -s --dry-run < {d}/patch.diff", shell=True, cwd=t, capture_output=True)
        if r.returncode != 0:
            # written against an earlier tree (before some fix: commits): walk back until the patch applies
            for commit in subprocess.run("git -C /repo log --format=%h", shell=True, capture_output=True,
                                         text=True).stdout.split()[1:]:
                shutil.rmtree(os.path.join(t, "amaranth_soc"))
                subprocess.run(f"git -C /repo archive {commit} amaranth_soc | tar -x -C {t}", shell=True, check=True)
                r = subprocess.run(f"patch -p1 -s --dry-run < {d}/patch.diff", shell=True, cwd=t, capture_output=True)
                if r.returncode == 0:
                    break
            else:
                return name, seed, "patch does not apply to any tree"
        subprocess.run(f"patch -p1 -s < {d}/patch.diff", shell=True, cwd=t, check=True)
        p = subprocess.run(["./check", prop, "--tier", "quick"], cwd=VERIF,
                           env={**os.environ, "VERIF_REPO": t, "VERIF_SEED": str(seed)}, capture_output=True, text=True)
        return name, seed, p.returncode
    finally:
        shutil.rmtree(t, ignore_errors=True)


def main():
    seeds = [int(x) for x in sys.argv[1:]] or [1]
    only = os.environ.get("SEED_MATRIX_ONLY")          # e.g. "H,I,F,G": restrict to some batches
    dirs = sorted(glob.glob(os.path.join(VERIF, "seeded", "*")))
    if only:
        dirs = [d for d in dirs if d.rsplit("-", 1)[-1] in only.split(",")]
    jobs = [(d, s) for d in dirs for s in seeds]
    res = {}
    with ThreadPoolExecutor(max_workers=4) as ex:
        for name, seed, rc in ex.map(one, jobs):
            res.setdefault(name, {})[seed] = rc
            if rc != 1:
                print(f"MISS {name} seed={seed} exit={rc}", flush=True)
    print(json.dumps({k: v for k, v in res.items()}, sort_keys=True))
    missed = sum(1 for v in res.values() for rc in v.values() if rc != 1)
    print(f"{len(jobs)} runs, {missed} not detected")


if __name__ == "__main__":
    main()
