#!/bin/sh
# usage: tools/mutant.sh <python-edit-script> <check ids...>   (edit script gets the scratch copy path in $1)
# Copies /repo/amaranth_soc to a scratch dir, applies the edit, runs the pinned tests and the given checks.
set -e
D=$(mktemp -d /tmp/mut-XXXX)
cp -r /repo/amaranth_soc "$D/"
cp -r /repo/tests "$D/"
script=$1; shift
python3 "$script" "$D"
( cd "$D" && /venv/bin/python -m pytest -q -x -p no:cacheprovider tests 2>&1 | tail -1 )
for c in "$@"; do
  ( cd /verif && VERIF_REPO="$D" ./check "$c" 2>&1 | grep -E "^VIOLATION|^KNOWN|\[quick\]|MACHINERY" | head -4 )
done
rm -rf "$D"
