#!/usr/bin/env python3
"""Regenerate /verif/MANIFEST.json from the table below (kept valid at all times)."""
import json
import os

HERE = os.path.dirname(os.path.dirname(os.path.abspath(__file__)))

TB = ("TLC 1.8 and the TLA+ specification as written; Amaranth 0.5.10's Python simulator as the "
      "semantics of the elaborated design; the harness's encoding of signals into trace records")

MM = ("TLC 1.8 and the TLA+ specification as written; the harness's logging of calls and query results; "
      "align_to(0) as a neutral cursor probe")

CHECKS = {
    "C08": dict(
        text=("TLC model-checks specs/WbArbiter_MC.tla (every configuration key, owner and input "
              "vector; one-owner/isolation/bus-is-owner's/no-pre-emption asserted on every "
              "transition); every exported transition is then taken on the real wishbone.Arbiter by "
              "an edge tour and every recorded cycle, plus seeded random real-size configurations "
              "under hostile schedules, is validated by TLC against specs/WbArbiter.tla."),
        note=TB + "; exhaustive only up to the bounded family (N<=3 quick, N<=4 thorough).",
        technique="TLA+ spec + TLC model checking; TLC-exported edge tour replayed on the real design; TLC trace validation",
        design="5 (C08/C09), 2"),
    "C09": dict(
        text=("Exact-successor rule asserted by TLC on every transition of WbArbiter_MC; "
              "NoStarvation (temporal, WF) and the bounded-wait invariant model-checked on "
              "WbArbiter_Live for N<=4(5); the real arbiter's complete transition table is "
              "extracted by an edge tour, validated entry by entry against the specification by "
              "TLC, and NoStarvation is model-checked by TLC directly on the extracted table "
              "(specs/WbArbiterImpl_MC.tla). For EVERY N: TLAPS proves bounded waiting (at most N-1 grants to others, "
              "no assumption on the initiators) of specs/WbArbiterAbs.tla (144 obligations), whose step relation "
              "WbArbiter_MC / WbArbiter_Succ_MC are asserted to refine on every transition (N<=8) and every "
              "recorded cycle of the real arbiters is validated against."),
        note=TB + "; liveness is established for N<=4 (quick) on the extracted implementation table; the TLAPS theorem is about the abstract relation, tied to the code by refinement assertions (N<=8) and trace validation.",
        technique="TLC liveness checking on spec and on the transition table extracted from the real design; trace validation",
        design="5 (C08/C09), 2"),
    "C12": dict(
        text=("TLC model-checks specs/FieldAction_MC.tla: every action kind, width<=3(4), init, storage "
              "state and input vector, with the per-bit statement of C12 (set wins ties, untouched bits "
              "keep, RW holds last written via a history variable, pass-through, data = bus read) asserted "
              "on every transition; every exported transition is taken on the real csr.action classes and "
              "validated by TLC, as are random wide signed/enum/unsigned instances."),
        note=TB + "; widths above 4 are covered by validated random executions only.",
        technique="TLA+ spec + TLC model checking; edge tour on the real design; TLC trace validation",
        design="5 (C12)"),
    "C13": dict(
        text=("Hardware half: TLC model-checks specs/EventMon_MC.tla (all sizes<=2(3), all trigger-mode "
              "assignments, every state and input; NoEventLost, StickyUntilCleared, edge rules as two-step "
              "action properties, LineIsEnabledAndPending); every exported transition is taken on the real "
              "event.Monitor built from an event map with shuffled repeated adds. API half: every EventMap "
              "history to a depth is model-checked (dense, stable, first-addition order, frozen rejects) "
              "and every (state, call) edge replayed on real EventMap objects. All recorded traces are "
              "validated by TLC."),
        note=TB + "; monitors larger than 3 sources are covered by validated random executions only.",
        technique="TLA+ spec + TLC model checking; edge tour on the real design/object; TLC trace validation",
        design="5 (C13)"),
    "C15": dict(
        text=("TLC model-checks specs/WbSram_MC.tla (small geometries, every input every cycle; ack timing, "
              "no double write, select exactness, read-your-writes against an independent shadow memory, "
              "read-only inertness); every exported transition is taken on the real WishboneSRAM with the "
              "whole memory compared every cycle; random geometries/init images; all validated by TLC."),
        note=TB + "; memory contents are read through the simulator from the public memory-map resource.",
        technique="TLA+ spec + TLC model checking; edge tour on the real design; TLC trace validation",
        design="5 (C15)"),
    "C04": dict(
        text=("TLC model-checks specs/CsrMux_MC.tla on curated layouts: with every input every cycle "
              "(element.r_stb exactness, bus.r_data zero unless the previous cycle read a readable chunk) "
              "and with a protocol-conforming environment, where independent history variables establish "
              "that read data is the slice of the value presented at the first-chunk cycle and that the "
              "specification leaves no bit unknown. TLC -simulate behaviours are replayed on the real "
              "csr.Multiplexer for every shadow_overlaps, and random layouts/schedules recorded from the "
              "real design are validated by TLC against specs/CsrMux.tla."),
        note=TB + "; data after a protocol violation is deliberately unconstrained (U); layouts that cannot be elaborated are C19's.",
        technique="TLA+ spec + TLC model checking; TLC-generated behaviours replayed on the real design; TLC trace validation",
        design="5 (C04/C05), appendix A"),
    "C05": dict(
        text=("Same specification and legs as C04, write side: element.w_stb exactly one cycle after a "
              "write to the last address (all inputs), write data = concatenation of this transaction's "
              "chunks (history variable), nothing else strobed; plus a differential run feeding one "
              "conforming schedule to instances that differ only in shadow_overlaps."),
        note=TB + "; same as C04.",
        technique="TLA+ spec + TLC model checking; TLC-generated behaviours replayed on the real design; TLC trace validation",
        design="5 (C04/C05), appendix A"),
    "C06": dict(
        text=("TLC model-checks specs/CsrDecoder_MC.tla (every set and order of <=3 aligned windows, every "
              "input vector: one-hot strobes, ownership = emitted pattern, nobody when unassigned) and "
              "specs/CsrTree_MC.tla (decoder over two multiplexer specifications in lock-step with the flat "
              "multiplexer specification); every exported vector is applied to the real csr.Decoder; random "
              "real trees of decoders over multiplexers are driven at the root and validated by TLC against "
              "the flat CsrMux specification laid out by the root memory map's all_resources()."),
        note=TB + "; subordinate read data is constrained only while at most one subordinate answers (CSR zero-when-idle rule).",
        technique="TLA+ spec + TLC model checking; exported vectors replayed on the real design; TLC trace validation of trees against the flat spec",
        design="5 (C06)"),
    "C10": dict(
        text=("TLC model-checks specs/WbCsrBridge_MC.tla (ratios 1,2,4; every select mask; read/write; spaced "
              "and back-to-back transfers; cyc without stb; arbitrary CSR read data; protocol-abiding "
              "initiator) with history variables restating latency = ratio+1, one access per selected granule "
              "in ascending order at adr*ratio+index, lane placement and absence of stray strobes; TLC "
              "-simulate behaviours are replayed on the real bridge for all ten legal width pairs; random "
              "geometries alone and over a real csr.Multiplexer are validated by TLC against the bridge and "
              "the multiplexer specifications."),
        note=TB + "; the initiator is assumed protocol-abiding (holds a transfer until acknowledged), as the property states.",
        technique="TLA+ spec + TLC model checking; TLC-generated behaviours replayed on the real design; TLC trace validation",
        design="5 (C10)"),
    "C07": dict(
        text=("TLC model-checks specs/WbDecoder_MC.tla (every set/order of <=2(3) dense windows, 1-2 granules "
              "per word, feature subsets on decoder and subordinates, every request vector and response of the "
              "selected subordinate; at most one cyc, owner = emitted pattern with granularity bits stripped, "
              "offset, optional-signal defaults, response relay, silence when nobody is selected); every "
              "exported vector is applied to the real wishbone.Decoder; random decoders with dense "
              "equal-granularity and sparse windows are validated by TLC."),
        note=TB + "; subordinates are assumed to respond only while selected (as the property states); a window padded by the decoder alignment is taken to hold only the subordinate's own 2^aw addresses.",
        technique="TLA+ spec + TLC model checking; exported vectors replayed on the real design; TLC trace validation",
        design="5 (C07)"),
    "C02": dict(
        text=("TLC model-checks specs/MemoryMap_MC.tla: every history over a small universe (root aw=3, "
              "alignment 0/1, ratio-1 and ratio-2/sparse window candidates, sizes 0-3, every explicit or "
              "implicit address, per-call alignments, invalid arguments, freeze/bridge) up to a bounded number "
              "of items, with disjointness, bounds, alignment as invariants and first-fit, exact-or-rejected, "
              "size coverage, cursor, failure atomicity and frozen-rejects asserted on every transition; TLC "
              "-simulate behaviours and seeded random histories are executed on real MemoryMap objects and "
              "every call's outcome plus resources()/windows()/cursor of every map is validated by TLC against "
              "specs/MemoryMap.tla. Beyond the bounded universe: the abstract allocator specs/MemoryMapAbs.tla - "
              "which MemoryMap_MC is asserted to refine on every transition and against whose step relation "
              "every recorded call of the real MemoryMap is validated - is PROVED safe (no overlap, inside the "
              "address space, frozen means fixed) for every size by TLAPS (90 obligations) and checked by Apalache "
              "as an inductive invariant over unbounded integers."),
        note=MM + "; the TLAPS/Apalache results are about the abstract module - the link to the code is refinement checked by TLC on the bounded universe plus trace validation; where the documentation demands more than the code enforces (explicit address not a multiple of the effective alignment; dense windows of ratio>1) either outcome is accepted, as the property states.",
        technique="TLA+ spec of the API + TLC model checking of histories; TLC-generated and random histories replayed on real objects; TLC trace validation",
        design="5 (C02)"),
    "C03": dict(
        text=("Same specification: LookupCoherent (all_resources by the statement's arithmetic vs an "
              "independent top-down decode, every address of every map, each resource once, ascending) is an "
              "invariant of every reachable tree of MemoryMap_MC; on real trees (up to 7 maps, dense ratio 2/4 "
              "over leaves, sparse and ratio-1 windows anywhere, named/anonymous) all_resources(), "
              "find_resource() of every object incl. never-added ones and decode_address() of EVERY address are "
              "logged and compared by TLC with the specification's values for the same construction history."),
        note=MM + "; each resource object is added to at most one map of a tree.",
        technique="TLA+ spec of the API + TLC model checking; histories replayed on real objects; TLC trace validation of every query result",
        design="5 (C03)"),
    "C18": dict(
        text=("Same specification: acceptance is stated operationally (prefix comparison over the visible "
              "names, including those absorbed from anonymous windows) and declaratively (AcceptedOnlyIfFree, "
              "LegalNameNeverRefused with SequencesExt!IsPrefix on every transition; PathsDistinct and "
              "VisiblePrefixFree as invariants); real histories with colliding names of 1-3 parts ('0' vs 0, "
              "shared prefixes, anonymous windows absorbing several names) are validated by TLC: every "
              "acceptance and refusal must be the one the specification allows and nothing may change on refusal. "
              "For every forest of maps and every universe of names: TLAPS proves (128 obligations) that the abstract "
              "name space specs/NamesAbs.tla stays prefix-free and that absorbed name spaces never change; "
              "MemoryMap_MC is asserted to refine its step relation on every transition and every recorded call of "
              "the real MemoryMap is validated against it."),
        note=MM + "; the exception class of a refusal is not constrained; the TLAPS theorem is about the abstract module, tied to the code by the refinement assertion (bounded) and trace validation.",
        technique="TLA+ spec of the API + TLC model checking; histories replayed on real objects; TLC trace validation",
        design="5 (C18)"),
    "C17": dict(
        text=("specs/CsrBuilder.tla defines the layout of as_memory_map() by folding the MemoryMap "
              "specification's add_resource rule; TLC model-checks CsrBuilder_MC (geometries incl. granularity < "
              "data width, widths 0/9/17, explicit/implicit offsets, scopes, freeze) with the statement of C17 "
              "(offset x granularity / data_width, first size-aligned address after the previous register, "
              "power-of-two sizes, scope-qualified names, no silent adjustment, frozen accepts nothing) checked "
              "on every reachable builder state; TLC -simulate behaviours and random call sequences with invalid "
              "arguments are executed on real csr.Builder objects and validated by TLC."),
        note=MM + "; an explicit offset is honoured exactly even when not size-aligned (as the property states).",
        technique="TLA+ spec of the API + TLC model checking; histories replayed on real objects; TLC trace validation",
        design="5 (C17)"),
    "C11": dict(
        text=("specs/CsrReg.tla defines the packing recursively over arbitrarily nested field collections; TLC "
              "model-checks CsrReg_MC (single field, dicts, lists, list of dicts inside a dict, zero-width fields; "
              "every assignment of r/w/rw/nc to the leaves; register access r/w/rw; all values) against the "
              "per-field statement (width = sum, consecutive LSB-first slices, zero contribution of non-readable "
              "fields, strobe fan-out by access mode, refused iff incompatible); exported vectors are applied to "
              "real csr.Register objects built three ways over probe field actions; random nested trees with "
              "signed/enum/zero-width shapes are validated by TLC."),
        note=TB + "; this property is combinational: TLC enumerates shapes and values rather than exploring behaviours.",
        technique="TLA+ spec (recursive packing) + TLC enumeration; exported vectors replayed on the real design; TLC trace validation",
        design="5 (C11)"),
    "C14": dict(
        text=("specs/CsrEventMon.tla composes the CsrMux and EventMon specifications by the documented glue; "
              "TLC model-checks CsrEventMon_MC (conforming CSR initiator interleaved with arbitrary source "
              "activity, masks spanning several chunks, alignment padding) with history-based statements: enable "
              "takes the written mask, write-one clears exactly those unless re-triggered, zeros clear nothing, "
              "irq = enable & pending; IrqHandler_MC composes it with a software interrupt handler following the "
              "documented protocol (read pending, write-one-to-clear, serve; stalling anywhere) and devices with work "
              "outstanding: no work is lost (invariant), work is eventually served (liveness under weak fairness of "
              "the handler), the serve-then-acknowledge race is refuted; TLC -simulate handler behaviours are replayed "
              "on real monitors and compared state by state; real csr.event.EventMonitor instances (0-20 events, 1-32 bit buses, "
              "alignment 0-2, all trigger modes) attached behind a csr.Decoder and by wiring.connect() to an "
              "initiator interface are driven by register transactions while sources fire, and every cycle "
              "(incl. the register addresses reported by the memory map) is validated by TLC."),
        note=TB + "; the CSR initiator is protocol-conforming, as the property states. A failing wiring.connect is a violation (the property names that attachment).",
        technique="TLA+ composition of two specs + TLC model checking (safety and liveness, incl. a handler-protocol model); TLC-generated behaviours replayed on the real component; TLC trace validation in both attachments",
        design="5 (C14)"),
    "C19": dict(
        category="exploration",
        text=("specs/Lifecycle.tla states C19 as an automaton per component instance (build -> built | refused "
              "descriptively; every elaboration yields the hardware of the first; metadata never changes). The "
              "instances come from the configuration generators of all other checks; each is built, converted "
              "as a top-level component, converted with explicit ports, simulated twice under one stimulus and "
              "converted again - up to six elaborations of ONE instance - with metadata fingerprints in between; "
              "TLC validates every recorded life cycle. TLA+ is the oracle here; the detection power is that of "
              "the enumeration (honestly an exploration, not a model-checking claim)."),
        note=("non-termination is observed as RecursionError or a 90 s alarm; 'descriptive' = ValueError/TypeError "
              "whose innermost frame is a raise statement; one open known finding (csr.Register as a top level)."),
        technique="TLA+ life-cycle automaton as oracle; TLC trace validation of recorded build/elaborate/metadata histories",
        design="5 (C19), 7, 8"),
    "C20": dict(
        category="exploration",
        text=("specs/Ports.tla holds the member tables of every signature class as functions of their "
              "parameters, the port-direction rule and the connect rule; TLC (Ports_MC) enumerates 1336 parameter "
              "tuples (all 64 Wishbone feature subsets, all access/trigger modes) and checks the role rule on the "
              "tables; for every tuple the real signature's flattened members, create() round trip and == "
              "(against itself rebuilt from equivalent argument forms, and other tuples) are recorded, and for "
              "seeded instances of every component class the bus-facing port's members and the result of a real "
              "wiring.connect() with the complementary interface; TLC validates each record."),
        note="static structure: TLA+ is oracle and enumerator, there is no behaviour to explore; component instances are seeded samples.",
        technique="TLA+ tables as oracle, TLC enumeration of parameter tuples; TLC validation of recorded signature/port/connect facts",
        design="5 (C20)"),
    "C16": dict(
        text=("specs/Gpio.tla composes the builder layout rule, the CsrMux specification, register packing and "
              "the pin logic; TLC model-checks Gpio_MC (conforming CSR initiator interleaved with arbitrary pin "
              "levels, multi-chunk Mode/SetClr, 0-3 synchroniser stages) with the mode table, alt-only-in-alternate, "
              "exact input delay against a history of pin levels, set/clear codes and per-pin independence "
              "asserted on every transition; real gpio.Peripheral instances (1-20 pins, 8-32 bit buses) are driven "
              "by register transactions while pins toggle and every cycle, plus the register addresses reported "
              "by the memory map, is validated by TLC."),
        note=TB + "; exhaustive exploration is limited to one pin (two in the thorough tier); larger instances are validated executions.",
        technique="TLA+ composition of specs + TLC model checking; TLC trace validation of the real peripheral",
        design="5 (C16)"),
    "C01": dict(
        text=("Design level: on every tree reachable in MemoryMap_MC whose windows sit at multiples of their size, "
              "TLC checks that the pattern view (what the generators emit) decodes every address to the same "
              "resource as the map view, and that dropping the precondition yields a counterexample. Binding: "
              "seeded random hierarchies of real components (Wishbone decoder over SRAMs and Wishbone-CSR bridges "
              "over nested CSR decoders over multiplexers, csr.Bridge, event monitors, GPIO) are assembled; for "
              "EVERY word address of the root, read and write, full and single-granule selects, one transfer is "
              "simulated and its complete effect (ack or never, latency, read lanes, every register strobe of "
              "every leaf in order with data, SRAM words) is validated by TLC against specs/Soc.tla, whose "
              "expectation is derived from the memory maps alone with MemoryMap.tla's arithmetic and must also "
              "equal the real root map's all_resources()/decode_address()."),
        note=TB + "; 'never acknowledged' is a bounded wait of 4*(ratio+2) cycles; hierarchies are seeded samples (20 quick / 120 thorough), each swept over its whole root address space.",
        technique="TLA+ spec (map view vs pattern view) + TLC model checking; TLC validation of exhaustive per-address transfers on real hierarchies",
        design="5 (C01)"),
}

PENDING = "check not built yet in this round; see DESIGN.md section 13 for the build order"


def main():
    props = [json.loads(l) for l in open(os.path.join(HERE, "properties.jsonl"))]
    checks, na = [], []
    for p in props:
        pid = p["id"]
        c = CHECKS.get(pid)
        if c is None:
            na.append({"property_id": pid, "reason": PENDING})
            continue
        checks.append({
            "property_id": pid,
            "quick_cmd": f"./check {pid} --tier quick",
            "thorough_cmd": f"./check {pid} --tier thorough",
            "evidence_file": f"/verif/evidence/{pid}.json",
            "replay_cmd_template": f"./check {pid} --replay {{path}}",
            "engine": "tlc",
            "level_claimed": {"category": c.get("category", "model_checking"), "text": c["text"],
                              "design_ref": "DESIGN.md section " + c["design"]},
            "level_note": c["note"],
            "technique": c["technique"],
        })
    m = {
        "version": 1,
        "setup_cmd": "sh ./setup.sh",
        "hooks": {"guard": "AMARANTH_SOC_VERIF", "enable": "no source hooks are needed: every "
                  "observation point is a public attribute or a simulator signal",
                  "baseline_off_cmd": "cd /repo && /venv/bin/python -m pytest -q -p no:cacheprovider --timeout=900",
                  "source_commits": [], "add_only": True},
        "engines": [{"name": "tlc", "path": "/verif/specs", "serves_properties": sorted(CHECKS),
                     "kind_free_text": "explicit TLA+ specification library checked with TLC; bound to the "
                     "code by TLC-exported edge tours replayed on the real objects and by TLC validation "
                     "of traces recorded from the real objects"}],
        "checks": checks,
        "not_applicable": na,
        "notes": "See DESIGN.md. Known findings: known_findings.json.",
    }
    with open(os.path.join(HERE, "MANIFEST.json"), "w") as f:
        json.dump(m, f, indent=1)
    print(f"{len(checks)} checks, {len(na)} not applicable")


if __name__ == "__main__":
    main()
