#!/usr/bin/env python3
"""Apply each property-preserving change of /verif/benign/ to a scratch copy of /repo and require the
named quick checks to stay silent (exit 0).  usage: tools/benign_eval.py [patch-prefix ...]"""
import glob
import json
import os
import shutil
import subprocess
import sys
import tempfile
from concurrent.futures import ThreadPoolExecutor

VERIF = os.path.dirname(os.path.dirname(os.path.abspath(__file__)))
RELEVANT = {
    "01": ["C08", "C09", "C19"],
    "02": ["C06", "C01", "C14", "C19"],
    "03": ["C02", "C03", "C18", "C06", "C07", "C01", "C17"],
    "04": ["C07", "C01", "C19"],
    "05": ["C15", "C01", "C19"],
    "06": ["C04", "C05", "C06", "C10", "C14", "C16", "C01", "C19"],
    "07": ["C10", "C01", "C19"],
    "08": ["C13", "C14", "C16", "C19", "C20"],
}


def one(patch):
    key = os.path.basename(patch)[:2]
    d = tempfile.mkdtemp(prefix="benign-")
    try:
        shutil.copytree("/repo/amaranth_soc", os.path.join(d, "amaranth_soc"))
        shutil.copytree("/repo/tests", os.path.join(d, "tests"))
        subprocess.run(f"patch -p1 -s < {patch}", shell=True, cwd=d, check=True)
        t = subprocess.run("/venv/bin/python -m pytest -q -x -p no:cacheprovider tests 2>&1 | tail -1", shell=True,
                           cwd=d, env={**os.environ, "PYTHONPATH": d}, capture_output=True, text=True).stdout.strip()
        res = {}
        for c in RELEVANT.get(key, []):
            p = subprocess.run(["./check", c, "--tier", "quick"], cwd=VERIF, env={**os.environ, "VERIF_REPO": d},
                               capture_output=True, text=True)
            res[c] = p.returncode
            if p.returncode != 0:
                res[c + "_out"] = [l for l in p.stdout.splitlines() if "what:" in l or "MACHINERY" in l][:2] + \
                                  p.stderr.splitlines()[-3:]
        return os.path.basename(patch), t, res
    finally:
        shutil.rmtree(d, ignore_errors=True)


def main():
    patches = sorted(glob.glob(os.path.join(VERIF, "benign", "*.diff")))
    if sys.argv[1:]:
        patches = [p for p in patches if any(os.path.basename(p).startswith(a) for a in sys.argv[1:])]
    out = {}
    with ThreadPoolExecutor(max_workers=3) as ex:
        for name, tests, res in ex.map(one, patches):
            bad = {k: v for k, v in res.items() if not k.endswith("_out") and v != 0}
            print(f"{name}: tests: {tests}; checks: { {k: v for k, v in res.items() if not k.endswith('_out')} }"
                  + (f"  ALARM {json.dumps({k: res[k + '_out'] for k in bad})}" if bad else "  all silent"))
            out[name] = {"tests": tests, "checks": {k: v for k, v in res.items() if not k.endswith("_out")}}
    json.dump(out, open(os.path.join(VERIF, "benign", "results.json"), "w"), indent=1)


if __name__ == "__main__":
    main()
